"""symx -- symbolic-number execution of unmodified Python code.

A ``Sym`` is a number-like object whose payload is an exact multivariate
polynomial (``Fraction`` coefficients) over solver variables.  Arithmetic stays
in normal form in pure Python; every event that forces Python to know a truth
value or a concrete value becomes a *decision* that the explorer (``Ctx``)
settles with z3 and, when both outcomes are feasible, forks on.

The same ``Ctx`` class has a *concrete* mode (``Ctx(concrete=values)``) in which
variable constructors hand out plain ``int``/``Fraction`` numbers taken from a
solver model: the harness code is then an ordinary run of the real code on
ordinary numbers, which is how counterexamples are replayed and how explored
paths are validated ("witness replay").
"""
import math
import time
from fractions import Fraction

import z3


class PathAbort(BaseException):
    """infeasible / abandoned path (BaseException: must not be swallowed by code under test)"""


class Unknown(Exception):
    """the solver could not decide a query"""


class Budget(BaseException):
    """exploration budget exhausted"""


OPS = {'<': lambda a: a < 0, '<=': lambda a: a <= 0, '==': lambda a: a == 0,
       '!=': lambda a: a != 0, '>': lambda a: a > 0, '>=': lambda a: a >= 0}
NEG = {'<': '>=', '<=': '>', '==': '!=', '!=': '==', '>': '<=', '>=': '<'}


def rv(f):
    f = Fraction(f)
    if f.denominator == 1:
        return z3.RealVal(f.numerator)
    return z3.RealVal(f.numerator) / z3.RealVal(f.denominator)


class Q(Fraction):
    """exact rational handed to the code under test in concrete (replay) mode.

    A ``Fraction`` whose arithmetic absorbs ``float`` operands exactly (every float is a dyadic
    rational) and keeps the subclass, so that library-internal constants such as ``1/2 -> 0.5``
    cannot silently turn an exact replay into a rounded one.  Replays therefore have exactly the
    arithmetic model of the symbolic run: the rationals."""
    __slots__ = ()

    @staticmethod
    def _co(o):
        if isinstance(o, Fraction): return o
        if isinstance(o, bool): return Fraction(int(o))
        if isinstance(o, int): return Fraction(o)
        if isinstance(o, float) and o == o and o not in (float('inf'), float('-inf')): return Fraction(o)
        try:
            import numpy as np
            if isinstance(o, np.integer): return Fraction(int(o))
            if isinstance(o, np.floating): return Fraction(float(o))
        except ImportError:
            pass
        return None

    def _bin(self, o, f, swap=False):
        q = Q._co(o)
        if q is None: return NotImplemented
        a, b = (q, Fraction(self)) if swap else (Fraction(self), q)
        return Q(f(a, b))
    def __add__(self, o): return self._bin(o, lambda a, b: a + b)
    def __radd__(self, o): return self._bin(o, lambda a, b: a + b, True)
    def __sub__(self, o): return self._bin(o, lambda a, b: a - b)
    def __rsub__(self, o): return self._bin(o, lambda a, b: a - b, True)
    def __mul__(self, o): return self._bin(o, lambda a, b: a * b)
    def __rmul__(self, o): return self._bin(o, lambda a, b: a * b, True)
    def __truediv__(self, o): return self._bin(o, lambda a, b: a / b)
    def __rtruediv__(self, o): return self._bin(o, lambda a, b: a / b, True)
    def __neg__(self): return Q(-Fraction(self))
    def __pos__(self): return self
    def __abs__(self): return Q(abs(Fraction(self)))
    def __pow__(self, k):
        if isinstance(k, Fraction) and k.denominator == 1: k = int(k)
        if isinstance(k, int): return Q(Fraction(self) ** k)
        return Fraction(self) ** k
    def __hash__(self): return Fraction.__hash__(self)
    def __eq__(self, o): return Fraction.__eq__(self, o)
    def __reduce__(self): return (Q, (self.numerator, self.denominator))
    def __repr__(self): return 'Q(%s)' % Fraction.__str__(self)


def num(f):
    """model value -> exact plain number handed to the code under test"""
    return Q(f)


class Ctx:
    cur = None

    def __init__(self, timeout_ms=20000, parent=None, assumptions=(), concrete=None):
        self.concrete = concrete            # None (symbolic) or dict name -> Fraction
        self.timeout_ms = timeout_ms
        self.solver = z3.Solver()
        self.solver.set('timeout', timeout_ms)
        self.stats = dict(queries=0, solver_s=0.0, decisions=0, forks=0, paths=0, aborted=0,
                          fallbacks=0, unknown=0, inconclusive_paths=0, realisations=0)
        if parent is not None:
            self.zvars, self.names, self.bounded, self.byname = parent.zvars, parent.names, parent.bounded, parent.byname
            self.base = list(parent.base) + list(assumptions)
            self.solver.add(*self.base)
        else:
            self.zvars, self.names, self.bounded, self.byname = [], [], {}, {}
            self.base = []
        self.prefix, self.trace, self.pc, self.pending, self.cache = [], [], [], [], {}
        self.work = []
        self.model = None
        self.counters = {}
        self.base_violated = []
        self.complete = True
        self.deadline = None

    @property
    def pc_of_current(self):
        return list(self.pc)

    # ---- variables
    def _register(self, name, zv, is_int, lo, hi):
        if name in self.byname:
            return self.byname[name]
        self.zvars.append(z3.ToReal(zv) if is_int else zv)
        self.names.append(name)
        idx = len(self.zvars) - 1
        self.byname[name] = idx
        if is_int and lo is not None and hi is not None:
            self.bounded[idx] = (lo, hi)
        return idx

    def add_base(self, *conds):
        """assumption on the inputs (part of the claim); checked in concrete mode"""
        for c in conds:
            if isinstance(c, bool):
                c = z3.BoolVal(c)
            if self.concrete is not None:
                if not z3.is_true(z3.simplify(c)):
                    self.base_violated.append(str(c))
            self.base.append(c)
            self.solver.add(c)

    def int_var(self, name, lo=None, hi=None):
        if self.concrete is not None:
            v = Fraction(self.concrete.get(name, lo if lo is not None else 0))
            if v.denominator != 1 or (lo is not None and v < lo) or (hi is not None and v > hi):
                self.base_violated.append('range of %s' % name)
            return int(v)
        new = name not in self.byname
        v = z3.Int(name)
        idx = self._register(name, v, True, lo, hi)
        if new:
            if lo is not None: self.base.append(v >= lo); self.solver.add(v >= lo)
            if hi is not None: self.base.append(v <= hi); self.solver.add(v <= hi)
        return Sym({(idx,): Fraction(1)})

    def real_var(self, name, lo=None, hi=None, lo_strict=False, hi_strict=False):
        if self.concrete is not None:
            v = Fraction(self.concrete.get(name, (lo if lo is not None else 0) + (1 if lo_strict else 0)))
            if (lo is not None and (v <= lo if lo_strict else v < lo)) or (hi is not None and (v >= hi if hi_strict else v > hi)):
                self.base_violated.append('range of %s' % name)
            return num(v)
        new = name not in self.byname
        v = z3.Real(name)
        idx = self._register(name, v, False, None, None)
        if new:
            if lo is not None:
                c = v > lo if lo_strict else v >= lo
                self.base.append(c); self.solver.add(c)
            if hi is not None:
                c = v < hi if hi_strict else v <= hi
                self.base.append(c); self.solver.add(c)
        return Sym({(idx,): Fraction(1)})

    def fresh(self, prefix='t', is_int=False):
        """per-path fresh variable; its name depends only on the order of creation on the path"""
        k = self.counters.get(prefix, 0)
        self.counters[prefix] = k + 1
        name = '%s#%d' % (prefix, k)
        if self.concrete is not None:
            return num(self.concrete.get(name, 0))
        v = z3.Int(name) if is_int else z3.Real(name)
        idx = self._register(name, v, is_int, None, None)
        return Sym({(idx,): Fraction(1)})

    # ---- z3 conversion
    def z(self, p):
        if isinstance(p, Sym): p = p.p
        elif not isinstance(p, dict):
            q = to_poly(p)
            if q is None: raise TypeError('not a number: %r' % (p,))
            p = q
        terms = []
        for mono, c in p.items():
            t = rv(c)
            for i in mono: t = t * self.zvars[i]
            terms.append(t)
        if not terms: return z3.RealVal(0)
        return z3.Sum(terms) if len(terms) > 1 else terms[0]

    # ---- solver plumbing
    def _flush(self):
        if self.pending:
            self.solver.add(*self.pending); self.pending = []

    def check(self, *extra, keep_model=False):
        self._flush()
        if self.deadline is not None and time.time() > self.deadline:
            raise Budget()
        t = time.time()
        self.solver.push()
        if extra: self.solver.add(*extra)
        r = self.solver.check()
        m = self.solver.model() if (r == z3.sat and keep_model) else None
        self.solver.pop()
        self.stats['queries'] += 1; self.stats['solver_s'] += time.time() - t
        if r == z3.unknown:
            self.stats['unknown'] += 1
            raise Unknown('solver returned unknown')
        return r, m

    def assume(self, c):
        if self.concrete is not None:
            if not z3.is_true(z3.simplify(c)):
                self.base_violated.append('path assumption ' + str(c)[:200])
            return
        self.pc.append(c); self.pending.append(c)
        if self.model is not None:
            try:
                ok = z3.is_true(self.model.eval(c, model_completion=True))
            except z3.Z3Exception:
                ok = False
            if not ok:
                self.model = None

    def _model(self):
        if self.model is None:
            r, m = self.check(keep_model=True)
            if r != z3.sat: raise PathAbort()
            self.model = m
        return self.model

    # ---- decisions
    def decide_poly(self, p, op):
        if not p: return OPS[op](0)
        if len(p) == 1 and () in p: return OPS[op](p[()])
        key = (frozenset(p.items()), op)
        if key in self.cache: return self.cache[key]
        cond = OPS[op](self.z(p))
        d = self._decide(cond, p)
        self.cache[key] = d; self.cache[(key[0], NEG[op])] = not d
        return d

    def decide(self, cond):
        """decision on an arbitrary z3 condition"""
        if self.concrete is not None:
            return z3.is_true(z3.simplify(cond))
        return self._decide(cond, None)

    def _decide(self, cond, p=None):
        self.stats['decisions'] += 1
        while True:
            i = len(self.trace)
            if i < len(self.prefix):
                ent = self.prefix[i]
                if ent[0] == 'f':
                    self.trace.append(ent); self.realize({(ent[1],): Fraction(1)}); continue
                assert ent[0] == 'd', ent
                self.trace.append(ent)
                self.assume(cond if ent[1] else z3.Not(cond))
                return ent[1]
            try:
                m = self._model()
                mv = z3.is_true(m.eval(cond, model_completion=True))
                other = z3.Not(cond) if mv else cond
                r, _ = self.check(other)
            except Unknown:
                cand = [v for mono in (p or {}) for v in mono if v in self.bounded and ('real', v) not in self.cache]
                if not cand:
                    self.stats['inconclusive_paths'] += 1; self.complete = False
                    raise PathAbort()
                self.cache[('real', cand[0])] = True
                self.stats['fallbacks'] += 1
                self.trace.append(('f', cand[0])); self.realize({(cand[0],): Fraction(1)}); continue
            if r == z3.sat:
                self.stats['forks'] += 1
                self.work.append(self.trace + [('d', not mv)])
            self.trace.append(('d', mv))
            self.assume(cond if mv else z3.Not(cond))
            return mv

    UNBOUNDED_REALISATION_CAP = 6

    def realize(self, p):
        """force a concrete value: fork over the feasible values.  The value set must be finite (bounded integer inputs);
        an expression over unbounded variables that keeps admitting new values is cut after a few alternatives and the
        sub-tree is reported as inconclusive (never as success)"""
        e = self.z(p)
        self.stats['realisations'] += 1
        unbounded = any(v not in self.bounded for mono in (p.p if isinstance(p, Sym) else p) for v in mono)
        excluded = 0
        while True:
            i = len(self.trace)
            if i < len(self.prefix):
                ent = self.prefix[i]; self.trace.append(ent)
                if ent[0] == 'r':
                    self.assume(e == rv(ent[1])); return ent[1]
                assert ent[0] == 'n', ent
                self.assume(e != rv(ent[1])); excluded += 1; continue
            if unbounded and excluded >= self.UNBOUNDED_REALISATION_CAP:
                self.stats['inconclusive_paths'] += 1; self.complete = False
                self.stats['unbounded_realisations_cut'] = self.stats.get('unbounded_realisations_cut', 0) + 1
                raise PathAbort()
            try:
                m = self._model()
                v = z3val_to_frac(m.eval(e, model_completion=True))
                r, _ = self.check(e != rv(v))
            except Unknown:
                self.stats['inconclusive_paths'] += 1; self.complete = False
                raise PathAbort()
            if r == z3.sat:
                self.stats['forks'] += 1
                self.work.append(self.trace + [('n', v)])
            self.trace.append(('r', v)); self.assume(e == rv(v))
            return v

    # ---- exploration
    def explore(self, fn, roots=None, max_paths=10 ** 7, deadline=None):
        """yield (result, path_condition, trace) for every feasible path below the root prefixes.
        self.complete tells afterwards whether the tree was exhausted."""
        if self.concrete is not None:
            Ctx.cur = self
            self.counters = {}
            try:
                yield fn(self), [], []
            finally:
                Ctx.cur = None
            return
        self.deadline = deadline
        self.work = [list(r) for r in (roots or [[]])]
        while self.work:
            if deadline is not None and time.time() > deadline:
                self.complete = False; return
            self.prefix = self.work.pop()
            self.trace, self.pc, self.pending, self.cache, self.model = [], [], [], {}, None
            self.counters = {}
            self.solver.push(); Ctx.cur = self
            res = None; ok = False
            try:
                try:
                    res = fn(self)
                    ok = True
                except PathAbort:
                    self.stats['aborted'] += 1
                except Budget:
                    self.complete = False
                    self.work.append(self.prefix)
            finally:
                Ctx.cur = None
                self.pending = []; self.solver.pop()
            if not self.complete and not ok and deadline is not None and time.time() > deadline:
                return
            if ok:
                self.stats['paths'] += 1
                yield res, list(self.pc), list(self.trace)
                if self.stats['paths'] >= max_paths and self.work:
                    self.complete = False; return

    def sub(self, fn, pc, deadline=None):
        """nested exploration below a finished path: fresh context whose base is base+pc.
        Returns (list of (result, pc2), complete?)"""
        if self.concrete is not None:
            Ctx.cur = self
            try:
                return [(fn(self), [])], True
            finally:
                Ctx.cur = None
        c = Ctx(timeout_ms=self.timeout_ms, parent=self, assumptions=pc)
        out = [(r, p) for r, p, _ in c.explore(fn, deadline=deadline)]
        for k, v in c.stats.items():
            self.stats['sub_' + k] = self.stats.get('sub_' + k, 0) + v
        return out, c.complete

    def witness(self, pc, extra=()):
        s = z3.Solver(); s.set('timeout', self.timeout_ms)
        s.add(*self.base); s.add(*pc); s.add(*extra)
        if s.check() != z3.sat: return None
        return self.dyadic_values(s)

    def dyadic_values(self, s, denom=64):
        """values of all registered variables from a satisfiable solver state; real-sorted variables are
        steered to multiples of 1/denom when that is also satisfiable, so that replays on plain numbers
        stay exact even where the code under test mixes them with float constants such as 0.5"""
        m = s.model()
        reals = [v for v in self.zvars if v.sort() == z3.RealSort() and z3.is_const(v)]
        if reals:
            s.push()
            try:
                s.set('timeout', 5000)
                for i, v in enumerate(reals):
                    s.add(v * denom == z3.ToReal(z3.Int('dy!%d' % i)))
                if s.check() == z3.sat:
                    m = s.model()
            finally:
                s.set('timeout', self.timeout_ms)
                s.pop()
        return self.model_values(m)

    def model_values(self, m):
        out = {}
        for n, v in zip(self.names, self.zvars):
            try:
                out[n] = z3val_to_frac(m.eval(v, model_completion=True))
            except Unknown:
                return None
        return out


def z3val_to_frac(v):
    v = z3.simplify(v)
    if z3.is_int_value(v): return Fraction(v.as_long())
    if z3.is_rational_value(v): return Fraction(v.numerator_as_long(), v.denominator_as_long())
    if z3.is_algebraic_value(v): raise Unknown('algebraic value')
    raise Unknown('non-numeral model value %s' % v)


def to_poly(o):
    if isinstance(o, Sym): return o.p
    if isinstance(o, bool): return {(): Fraction(1)} if o else {}
    if isinstance(o, (int, Fraction)): return {(): Fraction(o.numerator, o.denominator)} if o else {}
    if isinstance(o, float):
        if o != o or o in (float('inf'), float('-inf')): return None
        return {(): Fraction(o)} if o else {}
    try:
        import numpy as np
        if isinstance(o, np.integer): return to_poly(int(o))
        if isinstance(o, np.floating): return to_poly(float(o))
    except ImportError:
        pass
    return None


def padd(a, b, sign=1):
    r = dict(a)
    for m, c in b.items():
        v = r.get(m, 0) + sign * c
        if v: r[m] = v
        else: r.pop(m, None)
    return r


def pmul(a, b):
    r = {}
    for m1, c1 in a.items():
        for m2, c2 in b.items():
            m = tuple(sorted(m1 + m2)); v = r.get(m, 0) + c1 * c2
            if v: r[m] = v
            else: r.pop(m, None)
    return r


def pscale(a, c):
    c = Fraction(c)
    return {m: v * c for m, v in a.items()} if c else {}


class SymBool:
    __slots__ = ('p', 'op')
    def __init__(self, p, op): self.p, self.op = p, op
    def __bool__(self):
        if Ctx.cur is None: raise RuntimeError('truth value of a symbolic comparison outside an exploration')
        return Ctx.cur.decide_poly(self.p, self.op)
    def __invert__(self): return SymBool(self.p, NEG[self.op])
    def __repr__(self): return 'SymBool(%s %s 0)' % (self.p, self.op)


def _cur():
    if Ctx.cur is None: raise RuntimeError('symbolic value inspected outside an exploration')
    return Ctx.cur


class Sym:
    __slots__ = ('p',)
    __array_priority__ = 1000
    def __init__(self, p): self.p = p
    def __add__(self, o):
        q = to_poly(o); return NotImplemented if q is None else Sym(padd(self.p, q))
    __radd__ = __add__
    def __sub__(self, o):
        q = to_poly(o); return NotImplemented if q is None else Sym(padd(self.p, q, -1))
    def __rsub__(self, o):
        q = to_poly(o); return NotImplemented if q is None else Sym(padd(q, self.p, -1))
    def __mul__(self, o):
        q = to_poly(o); return NotImplemented if q is None else Sym(pmul(self.p, q))
    __rmul__ = __mul__
    def __truediv__(self, o):
        q = to_poly(o)
        if q is None: return NotImplemented
        return sym_div(self.p, q)
    def __rtruediv__(self, o):
        q = to_poly(o)
        if q is None: return NotImplemented
        return sym_div(q, self.p)
    def __neg__(self): return Sym({m: -c for m, c in self.p.items()})
    def __pos__(self): return self
    def __abs__(self): return self if _cur().decide_poly(self.p, '>=') else -self
    def __pow__(self, k):
        if isinstance(k, Sym): k = k._real()
        if isinstance(k, Fraction) and k.denominator == 1: k = int(k)
        if not isinstance(k, int): return NotImplemented
        if k < 0: return sym_div({(): Fraction(1)}, (self ** (-k)).p)
        r = {(): Fraction(1)}
        for _ in range(k): r = pmul(r, self.p)
        return Sym(r)
    def _cmp(self, o, op):
        if isinstance(o, float) and o in (float('inf'), float('-inf')):
            return {'<': o > 0, '<=': o > 0, '>': o < 0, '>=': o < 0, '==': False, '!=': True}[op]
        q = to_poly(o)
        return NotImplemented if q is None else SymBool(padd(self.p, q, -1), op)
    def __lt__(self, o): return self._cmp(o, '<')
    def __le__(self, o): return self._cmp(o, '<=')
    def __gt__(self, o): return self._cmp(o, '>')
    def __ge__(self, o): return self._cmp(o, '>=')
    def __eq__(self, o):
        q = to_poly(o); return False if q is None else SymBool(padd(self.p, q, -1), '==')
    def __ne__(self, o):
        q = to_poly(o); return True if q is None else SymBool(padd(self.p, q, -1), '!=')
    def __bool__(self): return _cur().decide_poly(self.p, '!=')
    def is_const(self): return not self.p or (len(self.p) == 1 and () in self.p)
    def _real(self):
        if not self.p: return Fraction(0)
        if len(self.p) == 1 and () in self.p: return self.p[()]
        return _cur().realize(self.p)
    def __hash__(self):
        v = self._real(); return hash(int(v) if v.denominator == 1 else v)
    def __int__(self): return int(self._real())
    def __index__(self):
        v = self._real()
        if v.denominator != 1: raise TypeError('non-integer index')
        return int(v)
    def __float__(self): return float(self._real())
    def __ceil__(self): return math.ceil(self._real())
    def __floor__(self): return math.floor(self._real())
    def __trunc__(self): return math.trunc(self._real())
    def __round__(self, n=None):
        v = self._real(); return round(v, n) if n is not None else round(v)
    def __floordiv__(self, o):
        return self._real() // (o._real() if isinstance(o, Sym) else o)
    def __mod__(self, o):
        return self._real() % (o._real() if isinstance(o, Sym) else o)
    def __repr__(self): return 'Sym(%s)' % self.p
    def __format__(self, spec): return repr(self)
    # duck-typing hooks used by sympy-aware code paths in qubovert (subs/simplify)
    def __reduce__(self): return (Sym, (self.p,))


def sym_div(n, d):
    if not d: raise ZeroDivisionError('division by zero')
    if len(d) == 1 and () in d:
        return Sym({m: c / d[()] for m, c in n.items()})
    ctx = _cur()
    if ctx.decide_poly(d, '=='): raise ZeroDivisionError('division by zero')
    if not n: return Sym({})
    q = ctx.fresh('q')
    ctx.assume(ctx.z(pmul(q.p, d)) == ctx.z(n))
    return q


def concretize(obj, values, names):
    """evaluate a Sym at a witness (dict name -> Fraction)"""
    if not isinstance(obj, Sym):
        return obj
    tot = Fraction(0)
    for mono, c in obj.p.items():
        t = c
        for i in mono: t *= values[names[i]]
        tot += t
    return tot
