"""Independent evaluators and helpers for the oracle side of the harnesses.

Nothing here calls qubovert's own `value` functions: a model is read as a dict
`key -> coefficient` and evaluated from the definition.
"""
import itertools
from fractions import Fraction

import z3

from .symx import Sym, to_poly, padd, pmul, pscale


def qv():
    import qubovert
    return qubovert


def types():
    import qubovert as q
    from qubovert.utils import PUBOMatrix, PUSOMatrix, QUBOMatrix, QUSOMatrix
    return dict(QUBO=q.QUBO, PUBO=q.PUBO, PCBO=q.PCBO, QUBOMatrix=QUBOMatrix, PUBOMatrix=PUBOMatrix,
                QUSO=q.QUSO, PUSO=q.PUSO, PCSO=q.PCSO, QUSOMatrix=QUSOMatrix, PUSOMatrix=PUSOMatrix, dict=dict)


BOOL_TYPES = ['QUBO', 'PUBO', 'PCBO', 'QUBOMatrix', 'PUBOMatrix']
SPIN_TYPES = ['QUSO', 'PUSO', 'PCSO', 'QUSOMatrix', 'PUSOMatrix']
MATRIX_TYPES = ['QUBOMatrix', 'PUBOMatrix', 'QUSOMatrix', 'PUSOMatrix']
DEG2_TYPES = ['QUBO', 'QUSO', 'QUBOMatrix', 'QUSOMatrix']
LABEL_POOL = ['a', 0, (1, 't'), 'b', 7, 'c']


def is_spin_name(tn):
    return tn in SPIN_TYPES


def universe(labels, maxdeg, offset=True, mindeg=None):
    lo = (0 if offset else 1) if mindeg is None else mindeg
    return [k for d in range(lo, maxdeg + 1) for k in itertools.combinations(labels, d)]


def as_key(k):
    return k if isinstance(k, tuple) else (k,)


def bool_poly(model, assign):
    """value of a boolean model at a 0/1 assignment, as a polynomial dict (raw keys allowed)"""
    tot = {}
    for k, c in model.items():
        if all(assign[i] for i in as_key(k)):
            tot = padd(tot, to_poly(c))
    return tot


def spin_poly(model, assign):
    tot = {}
    for k, c in model.items():
        s = 1
        for i in as_key(k):
            s *= assign[i]
        tot = padd(tot, to_poly(c), s)
    return tot


def val_poly(model, assign, spin):
    return spin_poly(model, assign) if spin else bool_poly(model, assign)


def gen_poly(model, assign):
    """product semantics with arbitrary (possibly symbolic) variable values"""
    tot = 0
    for k, c in model.items():
        t = c
        for i in as_key(k):
            t = t * assign[i]
        tot = tot + t
    return tot


def assigns(labels, spin=False):
    vals = (1, -1) if spin else (0, 1)
    for xs in itertools.product(vals, repeat=len(labels)):
        yield dict(zip(labels, xs))


def b2s(a):
    return {k: 1 - 2 * v for k, v in a.items()}


def s2b(a):
    return {k: (1 - v) // 2 for k, v in a.items()}


def zbool_value(ctx, model, sb, spin=False, lab2idx=None):
    """z3 term for the model's value where variable i is the z3 Bool sb[i] (True = boolean 1 = spin -1)"""
    tot = []
    for k, c in model.items():
        idx = [lab2idx[i] if lab2idx is not None else i for i in as_key(k)]
        cz = ctx.z(c)
        if not idx:
            tot.append(cz)
        elif not spin:
            idx = sorted(set(idx), key=repr)
            tot.append(z3.If(z3.And([sb[i] for i in idx]) if len(idx) > 1 else sb[idx[0]], cz, z3.RealVal(0)))
        else:
            par = None
            for i in idx:
                par = sb[i] if par is None else z3.Xor(par, sb[i])
            tot.append(z3.If(par, -cz, cz))
    if not tot:
        return z3.RealVal(0)
    return z3.Sum(tot) if len(tot) > 1 else tot[0]


def snapshot(d):
    """structure + coefficient polynomials of a dict-like model (for immutability checks)"""
    return {k: frozenset((to_poly(v) or {}).items()) if to_poly(v) is not None else repr(v) for k, v in d.items()}


def book(m):
    """bookkeeping of a model object as the user sees it (for 'argument not modified' checks that look beyond the terms)"""
    out = []
    for attr in ('variables', 'mapping', 'reverse_mapping', 'num_binary_variables', 'degree', 'num_terms', 'name', 'num_ancillas'):
        try:
            v = getattr(m, attr)
        except Exception:      # noqa
            continue
        if isinstance(v, (set, frozenset)): v = sorted(map(repr, v))
        elif isinstance(v, dict): v = sorted((repr(a), repr(b)) for a, b in v.items())
        out.append((attr, repr(v)))
    cons = getattr(m, 'constraints', None)
    if isinstance(cons, dict):
        out.append(('constraints', repr(sorted((k, [sorted((repr(kk), repr(vv)) for kk, vv in c.items()) for c in v]) for k, v in cons.items()))))
    return tuple(out)


def canon_key(k, spin):
    k = as_key(k)
    if spin:
        ks = [x for x in set(k) if k.count(x) % 2]
    else:
        ks = list(set(k))
    return frozenset(ks)


def poly_of_model(model, spin):
    """canonical multilinear form: frozenset(labels) -> coefficient polynomial"""
    out = {}
    for k, c in model.items():
        ck = canon_key(k, spin)
        p = padd(out.get(ck, {}), to_poly(c))
        if p: out[ck] = p
        else: out.pop(ck, None)
    return out


def zabs(x):
    return z3.If(x >= 0, x, -x)


def div_by_var(p, idx):
    """p / var(idx) if every monomial of p contains var idx exactly once, else None"""
    out = {}
    for m, c in p.items():
        if m.count(idx) != 1:
            return None
        mm = list(m); mm.remove(idx); out[tuple(mm)] = c
    return out
