"""Runs the CrossHair lemmas (one process per lemma, in parallel) and classifies the outcomes.

'Confirmed over all paths' -> discharged; a counterexample is re-evaluated concretely against the real function and, if it
reproduces, becomes a violation of the owning property; 'Not confirmed' / 'Unable to meet precondition' -> inconclusive
(reported, neither discharged nor failed)."""
import ast
import importlib
import os
import re
import subprocess
import sys
import time
from concurrent.futures import ThreadPoolExecutor

HERE = os.path.dirname(os.path.abspath(__file__))


def lemma_lines(modname):
    path = os.path.join(HERE, modname + '.py')
    tree = ast.parse(open(path).read())
    return path, [(n.name, n.body[0].lineno if n.body else n.lineno) for n in tree.body if isinstance(n, ast.FunctionDef) and n.name.startswith('lemma_')]


def run_lemmas(modname, names=None, timeout=30):
    path, lemmas = lemma_lines(modname)
    if names is not None:
        lemmas = [l for l in lemmas if l[0] in names]
    py = sys.executable

    def one(item):
        name, line = item
        t = time.time()
        try:
            r = subprocess.run([py, '-m', 'crosshair', 'check', '--report_all', '--per_condition_timeout', str(timeout), '%s:%d' % (path, line)],
                               capture_output=True, text=True, timeout=timeout * 4 + 60, cwd=HERE)
            out = r.stdout + r.stderr
        except subprocess.TimeoutExpired:
            out = 'info: Not confirmed. (process timeout)'
        verdict, detail = 'inconclusive', out.strip().splitlines()[-1][:300] if out.strip() else ''
        if 'Confirmed over all paths' in out:
            verdict = 'confirmed'
        m = re.search(r'error: (.*)', out)
        if m:
            verdict, detail = 'counterexample', m.group(1)[:400]
        return dict(lemma=name, verdict=verdict, detail=detail, wall_s=round(time.time() - t, 1))
    with ThreadPoolExecutor(max_workers=min(8, max(1, len(lemmas)))) as ex:
        return list(ex.map(one, lemmas))


def reproduce(modname, result):
    """re-evaluate a CrossHair counterexample `false when calling lemma_x(args) ...` against the real function"""
    m = re.search(r'when calling (lemma_\w+\(.*?\))(?: \(which returns|$)', result['detail'])
    if not m:
        return False, 'counterexample text not understood: ' + result['detail']
    mod = importlib.import_module('vq.lemmas.' + modname)
    call = m.group(1)
    fn = getattr(mod, call.split('(')[0])
    try:
        node = ast.parse(call, mode='eval').body
        kwargs = {k.arg: ast.literal_eval(k.value) for k in node.keywords}
        args = [ast.literal_eval(a) for a in node.args]
        ret = fn(*args, **kwargs)
        post = [l.split('post:', 1)[1].strip() for l in (fn.__doc__ or '').splitlines() if 'post:' in l][0]
        import inspect
        names = list(inspect.signature(fn).parameters)
        env = dict(zip(names, args)); env.update(kwargs); env['_'] = ret
        ok = bool(eval(post, vars(mod), env))
        return (not ok), '%s returned %r; postcondition %s' % (call, ret, 'fails' if not ok else 'holds')
    except Exception as e:      # noqa
        return True, '%s raised %s: %s' % (call, type(e).__name__, e)


def as_extra(modname, names, prop, timeout=30):
    """result in the shape main.py merges into the evidence (`post` hook of a property module)"""
    try:
        rs = run_lemmas(modname, names, timeout)
    except Exception as e:      # noqa -- the auxiliary layer must never turn into a verdict
        return dict(x_crosshair_error='%s: %s' % (type(e).__name__, e), x_crosshair_inconclusive=list(names or []))
    extra = dict(obligations=len(rs), discharged=sum(r['verdict'] == 'confirmed' for r in rs), unknown=0, cex=[],
                 x_crosshair_lemmas=rs, samples=[dict(crosshair_lemma=r['lemma'], verdict=r['verdict']) for r in rs[:2]])
    extra['x_crosshair_inconclusive'] = [r['lemma'] for r in rs if r['verdict'] == 'inconclusive']
    for r in rs:
        if r['verdict'] == 'counterexample':
            ok, detail = reproduce(modname, r)
            extra['cex'].append(dict(prop=prop, spec=dict(prop=prop, name='crosshair/' + r['lemma'], sig='crosshair/' + r['lemma'], module='vq.lemmas.' + modname, make=r['lemma'], args={}),
                                     label=r['lemma'], sig='lemma violated', values={}, info=dict(crosshair=r['detail']), replayed=ok, replay_detail=detail))
            extra['sat'] = extra.get('sat', 0) + 1
    return extra
