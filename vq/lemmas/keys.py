"""CrossHair lemmas (label-symbolic): key canonicalisation and small helpers of the real code.

Each function calls the real qubovert function on symbolic arguments; the docstring contract is the specification.
Run by `vq.lemmas.run` with `crosshair check --report_all`.
"""
from typing import Tuple, List
import sys
import os
sys.path.insert(0, os.environ.get('QUBOVERT_REPO', '/repo'))
from qubovert.utils import PUBOMatrix, PUSOMatrix, QUBOMatrix, QUSOMatrix, num_bits, boolean_to_spin, spin_to_boolean, is_solution_spin
from qubovert.utils import decimal_to_boolean, boolean_to_decimal
import qubovert as qv


def lemma_pubomatrix_squash(key: Tuple[int, ...]) -> Tuple[int, ...]:
    """
    pre: len(key) <= 4 and all(0 <= k <= 4 for k in key)
    post: _ == tuple(sorted(set(key)))
    """
    return PUBOMatrix.squash_key(key)


def lemma_pusomatrix_squash(key: Tuple[int, ...]) -> Tuple[int, ...]:
    """
    pre: len(key) <= 4 and all(0 <= k <= 4 for k in key)
    post: _ == tuple(sorted(x for x in set(key) if key.count(x) % 2))
    """
    return PUSOMatrix.squash_key(key)


def lemma_pubo_squash(key: Tuple[int, ...]) -> Tuple[int, ...]:
    """
    pre: len(key) <= 4 and all(0 <= k <= 4 for k in key)
    post: _ == tuple(sorted(set(key)))
    """
    return qv.PUBO.squash_key(key)


def lemma_puso_squash(key: Tuple[int, ...]) -> Tuple[int, ...]:
    """
    pre: len(key) <= 4 and all(0 <= k <= 4 for k in key)
    post: _ == tuple(sorted(x for x in set(key) if key.count(x) % 2))
    """
    return qv.PUSO.squash_key(key)


def lemma_num_bits_log(x: int) -> int:
    """
    pre: 0 <= x <= 40
    post: (_ == 0 and x == 0) or (2 ** (_ - 1) <= x < 2 ** _)
    """
    return num_bits(x, True)


def lemma_num_bits_nolog(x: int) -> int:
    """
    pre: 0 <= x <= 40
    post: _ == x
    """
    return num_bits(x, False)


def lemma_spin_bool_roundtrip(x: Tuple[int, ...]) -> Tuple[int, ...]:
    """
    pre: len(x) <= 5 and all(v in (0, 1) for v in x)
    post: tuple(_) == x
    """
    return spin_to_boolean(boolean_to_spin(x))


def lemma_boolean_to_spin_values(x: Tuple[int, ...]) -> Tuple[int, ...]:
    """
    pre: len(x) <= 5 and all(v in (0, 1) for v in x)
    post: all(s == 1 - 2 * b for s, b in zip(_, x)) and len(_) == len(x)
    """
    return tuple(boolean_to_spin(x))


def lemma_is_solution_spin(x: Tuple[int, ...]) -> bool:
    """
    pre: 1 <= len(x) <= 5 and all(v in (1, -1) for v in x) and any(v == -1 for v in x)
    post: _ == True
    """
    return is_solution_spin(x)


def lemma_decimal_roundtrip(d: int) -> int:
    """
    pre: 0 <= d <= 20
    post: _ == d
    """
    return boolean_to_decimal(decimal_to_boolean(d))
