"""Native differential replay: a path explored by the IR interpreter is re-run on a native build of the *real*
_canneal.c wrapper and kernels (gcc, from /repo's current sources) in which only random.c is replaced by a scripted
generator (native/scripted_random.c).  Final states and values must agree with the interpreter's.

This validates the interpreter, the CPython stubs and the arithmetic model against the implementation
(traces_validated_against_impl for C11 / C12 / C17)."""
import atexit
import ctypes
import importlib.machinery
import importlib.util
import math
import os
import shutil
import subprocess
import sysconfig
import tempfile
from fractions import Fraction

from .symx import Sym, concretize

REPO = os.environ.get('QUBOVERT_REPO', '/repo')
HERE = os.path.dirname(os.path.dirname(os.path.abspath(__file__)))
_STATE = {}


def build():
    """compile once per process; returns (python module, ctypes lib) or raises"""
    if 'mod' in _STATE:
        return _STATE['mod'], _STATE['lib']
    # pool workers leave through os._exit (no atexit): build inside the run directory the driver removes at the end
    tmp = tempfile.mkdtemp(prefix='vq_native_', dir=os.environ.get('VQ_TMP') or None)
    atexit.register(shutil.rmtree, tmp, True)
    sim = os.path.join(REPO, 'qubovert', 'sim')
    ext = sysconfig.get_config_var('EXT_SUFFIX')
    so = os.path.join(tmp, '_canneal' + ext)
    cmd = ['gcc', '-O1', '-g', '-fPIC', '-shared', '-fno-strict-overflow', '-I' + os.path.join(sim, 'src'), '-I' + sysconfig.get_paths()['include'],
           os.path.join(sim, '_canneal.c'), os.path.join(sim, 'src', 'anneal_quso.c'), os.path.join(sim, 'src', 'anneal_puso.c'),
           os.path.join(HERE, 'native', 'scripted_random.c'), '-lm', '-o', so]
    r = subprocess.run(cmd, capture_output=True, text=True)
    if r.returncode != 0:
        raise RuntimeError('native build failed: ' + r.stderr[-400:])
    loader = importlib.machinery.ExtensionFileLoader('_canneal', so)
    spec = importlib.util.spec_from_loader('_canneal', loader)
    mod = importlib.util.module_from_spec(spec); loader.exec_module(mod)
    lib = ctypes.CDLL(so)
    lib.vq_script.argtypes = [ctypes.POINTER(ctypes.c_double), ctypes.c_int, ctypes.POINTER(ctypes.c_int), ctypes.c_int]
    _STATE.update(mod=mod, lib=lib, dir=tmp)
    return mod, lib


def script_from_events(events, w, names, defs=None):
    """-> (doubles, ints) or None if the path cannot be scripted faithfully (exp underflow)"""
    ds, ks = [], []
    defs = defs or {}

    def real_arg(x):
        # the exp argument is an uninterpreted quotient variable: recompute the true quotient from its recorded definition
        if isinstance(x, Sym) and len(x.p) == 1:
            (mono, co), = x.p.items()
            if len(mono) == 1 and co == 1 and defs.get(mono[0], (None,))[0] == 'div':
                _, n, d = defs[mono[0]]
                dv = concretize(Sym(d), w, names)
                if dv == 0: return None
                return float(concretize(Sym(n), w, names) / dv)
        return float(concretize(x, w, names)) if isinstance(x, Sym) else float(x)
    ev = lambda x: concretize(x, w, names) if isinstance(x, Sym) else Fraction(x)
    for i, e in enumerate(events):
        if e[0] == 'rand_int':
            ks.append(int(e[1]))
        elif e[0] == 'rand_double':
            nxt = events[i + 1] if i + 1 < len(events) else None
            if nxt is not None and nxt[0] == 'exp':
                u, em = ev(e[1]), ev(nxt[2])
                accept = u < em
                x = real_arg(nxt[1])
                if x is None: return None
                real = math.exp(x) if x < 700 else float('inf')
                if accept and real <= 0.0: return None
                if not accept and real >= 1.0: return None
                ds.append(0.0 if accept else math.nextafter(1.0, 0.0))
            else:
                ds.append(float(ev(e[1])))
    return ds, ks


def run_wrapper(fname, args, ds, ks):
    mod, lib = build()
    D = (ctypes.c_double * max(1, len(ds)))(*ds); K = (ctypes.c_int * max(1, len(ks)))(*ks)
    lib.vq_script(D, len(ds), K, len(ks))
    st, vals = getattr(mod, fname)(*args)
    return st, vals, dict(used_d=lib.vq_used_doubles(), used_k=lib.vq_used_ints(), overran=lib.vq_overran(), seed=lib.vq_last_seed())


def validate_call(fname, lifted_args, result, events, w, names, defs=None):
    """re-run one bridge call natively at the witness w; returns (ok|None, detail)"""
    ev = lambda x: concretize(x, w, names) if isinstance(x, Sym) else x
    conc = []
    for a in lifted_args:
        if isinstance(a, list):
            conc.append([float(ev(x)) if isinstance(ev(x), Fraction) else ev(x) for x in a])
        else:
            conc.append(a)
    # int lists must stay ints for PyLong_AsLong
    def fix(a):
        return [int(x) if (isinstance(x, float) and False) else x for x in a]
    sc = script_from_events(events, w, names, defs)
    if sc is None:
        return None, 'exp underflow on this witness: path not scriptable'
    ds, ks = sc
    try:
        st, vals, info = run_wrapper(fname, conc, ds, ks)
    except Exception as e:      # noqa
        return False, 'native call raised %s: %s' % (type(e).__name__, e)
    ist, ivals = result
    ivals_c = [float(ev(v)) for v in ivals]
    if info['overran'] or info['used_d'] != len(ds) or info['used_k'] != len(ks):
        return False, 'native run consumed a different number of draws: %s vs script %d/%d' % (info, len(ds), len(ks))
    if [list(s) for s in st] != [[int(ev(x)) for x in s] for s in ist]:
        return False, 'final states differ: native %s vs interpreter %s' % (st, ist)
    if any(abs(a - b) > 1e-9 * max(1.0, abs(b)) for a, b in zip(vals, ivals_c)) or len(vals) != len(ivals_c):
        return False, 'values differ: native %s vs interpreter %s' % (vals, ivals_c)
    return True, 'agrees'


def run_kernel(kind, N, init, arrays, sweeps, Ts, in_order, ds, ks):
    """ctypes call of single_anneal_quso / single_anneal_puso on the native build; returns the final state"""
    mod, lib = build()
    D = (ctypes.c_double * max(1, len(ds)))(*ds); K = (ctypes.c_int * max(1, len(ks)))(*ks)
    lib.vq_script(D, len(ds), K, len(ks))
    ci = lambda xs: (ctypes.c_int * max(1, len(xs)))(*xs)
    cd = lambda xs: (ctypes.c_double * max(1, len(xs)))(*xs)
    cl = lambda xs: (ctypes.c_long * max(1, len(xs)))(*xs)
    state = ci(list(init))
    tsa = cd([float(t) for t in Ts])
    rng = (ctypes.c_uint64 * 2)(0, 1)
    if kind == 'quso':
        h, nn, nb, J, idx = arrays
        a = [cd(h), ci(nn), ci(nb), cd(J), cl(idx)]
        lib.single_anneal_quso(ctypes.c_int(N), state, a[0], a[1], a[2], a[3], a[4], ctypes.c_int(sweeps), tsa, ctypes.c_int(in_order), rng)
    else:
        nc, terms, coup, index, subs = arrays
        subarrs = [cl(s) for s in subs]
        SG = (ctypes.POINTER(ctypes.c_long) * max(1, len(subs)))(*[ctypes.cast(s, ctypes.POINTER(ctypes.c_long)) for s in subarrs])
        a = [ci(nc), ci(terms), cd(coup), cl(index)]
        lib.single_anneal_puso(ctypes.c_int(N), state, a[0], a[1], a[2], a[3], SG, ctypes.c_int(sweeps), tsa, ctypes.c_int(in_order), rng)
    return [state[i] for i in range(N)], dict(used_d=lib.vq_used_doubles(), used_k=lib.vq_used_ints(), overran=lib.vq_overran())
