"""C12 -- annealer dynamics are reproducible Metropolis sweeps (kernel equivalence on the IR of the real C files)."""
import itertools

import z3

from ..core import Ob
from ..symx import Sym, to_poly, padd
from .. import irsym
from ..irsym import Interp, base_stubs, mkarr, UB, Unsupported

LEVEL = 'model_checking'
ENGINE = 'irsym'
TECHNIQUE = 'bounded symbolic interpretation of the clang -O0 LLVM IR of anneal_quso.c / anneal_puso.c (symbolic couplings, temperatures, uniform draws, visited index) + z3: per-step equivalence with the single-spin Metropolis kernel'
LEVEL_TEXT = ('Bounded symbolic execution of the real C kernels\' IR. Decided by the solver on every path: each step uses the exact energy change of the visited spin, flips iff dE<=0 or u<EXP(-dE/T) '
              '(u the next unused uniform draw; EXP/division as uninterpreted functions with sign axioms), only the visited spin changes, the visited index is j (in order) or the rand_int draw; at T=0 energy never increases '
              'and the final state equals the label-order sweep; determinism for seed>=0 from IR facts (no writable globals, time() only reachable when seed<0). '
              'The distributional sentence of the property is reduced to this kernel equivalence under the assumption that rand_double/rand_int are i.i.d. uniform: the statistical quality of PCG32 and the accuracy of libm exp are NOT checked.')
ASSUMPTIONS = [
    'couplings/fields are symbolic *integers* (|c| <= 1000) so that every double intermediate is exactly representable: doubles are modelled as exact reals',
    'temperatures are symbolic reals >= 0 (or the constant 0); uniform draws u in [0,1) and rand_int results in [0,stop) are arbitrary (solver-chosen): rand_double, rand_int, rand_init are stubs',
    'exp and division by a symbolic temperature are uninterpreted (fresh result variable with sign/monotonicity axioms and recorded arguments); the oracle requires the recorded arguments to be exactly -dE and T',
    'at dE = 0 either outcome is accepted at T = 0; at T > 0 a step with dE = 0 must flip (probability 1)',
    'topologies, number of sweeps, visiting order and the initial state (a realised solver integer) are enumerated',
    'malloc succeeds',
]
STUBS = ['rand_init -> opaque state', 'rand_double -> fresh u, 0 <= u < 1', 'rand_int(stop) -> fresh integer in [0, stop), realised', 'exp -> uninterpreted, axioms: >0, <1 iff arg<0, =1 iff arg=0',
         'fdiv by symbolic T -> fresh quotient with sign axioms, arguments recorded', 'malloc/realloc/free -> checked heap model']
OUTSIDE = ['statistical quality of PCG32 / ldexp / pcg32_boundedrand_r', 'accuracy of libm exp', 'non-integer couplings (float rounding)', 'N > 4, sweeps > 3',
           'the empirical-distribution observation (>= 1e5 anneals) named in the property is not what this check does']
BOUNDS = {'quick': {'quso': 'complete graph N=3 (+fields), 2 sweeps in order / 1 sweep random order; N=4 chain 1 sweep', 'puso': 'N=3: fields, pair, triple; 1-2 sweeps', 'T': 'all-zero and symbolic >= 0'},
          'thorough': {'quso': 'N=4 complete 2 sweeps, N=3 3 sweeps', 'puso': 'N=4 with a 4-body term, 2 sweeps'}}

FN = {'quso': 'single_anneal_quso', 'puso': 'single_anneal_puso'}


def make_kernel(ctx, kind, N, terms, sweeps, tmode, in_order):
    terms = [tuple(t) for t in terms]
    mods = irsym.kernel_modules()
    c = {t: ctx.int_var('c' + '_'.join(map(str, t)), -1000, 1000) for t in terms}
    Ts = [0] * sweeps if tmode == 'zero' else [ctx.real_var('T%d' % t, 0) for t in range(sweeps)]
    isel = ctx.int_var('init', 0, 2 ** N - 1)
    fn = FN[kind]
    counter = [0]

    def dE_true(state, i):
        tot = 0
        for t, v in c.items():
            if i in t:
                p = v
                for j in t: p = p * state[j]
                tot = tot + p
        return -2 * tot

    def energy(state):
        tot = 0
        for t, v in c.items():
            p = v
            for j in t: p = p * state[j]
            tot = tot + p
        return tot

    def run():
        ii = int(isel)
        init = [1 if (ii >> k) & 1 == 0 else -1 for k in range(N)]
        it = Interp(mods, ctx, base_stubs(), watch_params={(fn, 9)})
        p_state = mkarr(it, list(init), 4, 'state', watched=True)
        p_Ts = mkarr(it, list(Ts), 8, 'Ts')
        rng = it.alloc(16, 'heap', 'rng')
        if kind == 'quso':
            hh = [c.get((i,), 0) for i in range(N)]
            nb = [[] for _ in range(N)]; Jl = [[] for _ in range(N)]
            for t, v in c.items():
                if len(t) == 2:
                    i, j = t; nb[i].append(j); nb[j].append(i); Jl[i].append(v); Jl[j].append(v)
            idx = [0]
            for i in range(1, N): idx.append(idx[-1] + len(nb[i - 1]))
            narr = (hh, [len(x) for x in nb], [x for l in nb for x in l], [x for l in Jl for x in l], idx)
            args = [N, p_state, mkarr(it, hh, 8, 'h'), mkarr(it, [len(x) for x in nb], 4, 'nn'),
                    mkarr(it, [x for l in nb for x in l], 4, 'nb'), mkarr(it, [x for l in Jl for x in l], 8, 'J'),
                    mkarr(it, idx, 8, 'index'), sweeps, p_Ts, in_order, rng]
        else:
            tl = [t for t in c if t]
            index = [0]
            for t in tl[:-1]: index.append(index[-1] + len(t))
            sub = [[k for k, t in enumerate(tl) if i in t] for i in range(N)]
            subp = [mkarr(it, [len(s)] + s, 8, 'sub%d' % i) for i, s in enumerate(sub)]
            narr = ([len(t) for t in tl], [x for t in tl for x in t], [c[t] for t in tl], index, [[len(s)] + s for s in sub])
            args = [N, p_state, mkarr(it, [len(t) for t in tl], 4, 'nc'), mkarr(it, [x for t in tl for x in t], 4, 'terms'),
                    mkarr(it, [c[t] for t in tl], 8, 'coup'), mkarr(it, index, 8, 'index'), mkarr(it, subp, 8, 'subgraphs'),
                    sweeps, p_Ts, in_order, rng]
        try:
            it.call(fn, args)
        except UB as e:
            return ('UB', str(e), init)
        final = [p_state.obj.cells[4 * i][1] for i in range(N)]
        leaks = [o.name for o in it.live if o.kind == 'heap' and not o.freed and o.name.startswith('heap')]
        return ('ok', init, final, list(it.events), dict(it.defs), leaks, sorted(it.called), dict(it.checks), it.steps, narr)

    def check(res):
        if res[0] == 'UB':
            return [Ob('no undefined behaviour in the kernel', False, info={'ub': res[1], 'init': res[2]}, sig='UB: ' + res[1].split(':')[0])]
        _, init, final, events, defs, leaks, called, checks, nsteps, narr = res
        if not hasattr(ctx, 'extra_functions'): ctx.extra_functions = set()
        ctx.extra_functions |= {'C-IR:' + n for n in called}
        obs = [Ob('kernel frees what it allocates', not leaks, info={'leaks': leaks})]
        counter[0] += 1
        if ctx.concrete is None and (counter[0] <= 15 or counter[0] % 10 == 0):
            from .. import native
            from ..symx import concretize
            w = ctx.witness(ctx.pc_of_current)
            if w is not None:
                ev = lambda x: concretize(x, w, ctx.names) if isinstance(x, Sym) else x
                sc = native.script_from_events(events, w, ctx.names, defs)
                if sc is None:
                    obs.append(Ob('ENGINE: native kernel replay', None, info={'detail': 'exp underflow on this witness'}))
                else:
                    try:
                        conc = [[(float(ev(x)) if isinstance(x, Sym) else x) if not isinstance(x, list) else x for x in a] for a in narr]
                        fin, info = native.run_kernel(kind, N, init, conc, sweeps, [ev(t) for t in Ts], in_order, sc[0], sc[1])
                        ok = fin == [int(ev(x)) for x in final] and not info['overran'] and info['used_d'] == len(sc[0]) and info['used_k'] == len(sc[1])
                        obs.append(Ob('ENGINE: native kernel (real C, scripted draws) agrees with the interpreter on this path', True if ok else False,
                                      info={'native': fin, 'interpreter': [str(x) for x in final], 'info': info, 'witness': {k: str(v) for k, v in list(w.items())[:10]}}))
                    except Exception as e:      # noqa
                        obs.append(Ob('ENGINE: native kernel replay', False, info={'detail': '%s: %s' % (type(e).__name__, e)}))
        steps = []; cur = None
        for ev in events:
            if ev[0] == 'pload': cur = []; steps.append(cur)
            elif ev[0] == 'ret': cur = None
            elif cur is not None: cur.append(ev)
        obs.append(Ob('one Metropolis step per (sweep, position)', len(steps) == sweeps * N, info={'steps': len(steps), 'want': sweeps * N}))
        if len(steps) != sweeps * N:
            return obs
        state = list(init)
        symbolic = ctx.concrete is None
        for sidx, evs in enumerate(steps):
            T = Ts[sidx // N]
            tag = 'step %d' % sidx
            ri = [e for e in evs if e[0] == 'rand_int']
            if in_order:
                obs.append(Ob('%s: in-order visiting draws no index' % tag, not ri, sig='visiting order'))
                i = sidx % N
            else:
                ok = len(ri) == 1 and ri[0][2] == N
                obs.append(Ob('%s: random visiting draws exactly one index from rand_int(len_state)' % tag, ok, info={'draws': repr(ri)}, sig='visiting order'))
                if not ok: return obs
                i = ri[0][1]
            stores = [e for e in evs if e[0] == 'store' and e[1] == 'state']
            flipped = bool(stores)
            okst = all(idx == i for (_, _, idx, _) in stores) and len(stores) <= 1
            obs.append(Ob('%s: only the visited spin is written' % tag, okst, info={'stores': repr(stores), 'visited': i}, sig='foreign store'))
            if not okst: return obs
            if flipped:
                obs.append(Ob('%s: a flip negates the spin' % tag, ctx.z(stores[0][3]) == ctx.z(-state[i]) if isinstance(stores[0][3], Sym) else stores[0][3] == -state[i],
                              sig='flip value'))
            dE = dE_true(state, i)
            zdE, zT = ctx.z(dE), ctx.z(T)
            if flipped:
                obs.append(Ob('%s: no uphill flip at T <= 0' % tag, z3.Not(z3.And(zdE > 0, zT <= 0)), sig='uphill flip at T<=0'))
            else:
                obs.append(Ob('%s: a downhill move is always taken' % tag, z3.Not(zdE < 0), sig='downhill move rejected'))
                obs.append(Ob('%s: a neutral move is taken at T > 0' % tag, z3.Not(z3.And(zdE == 0, zT > 0)), sig='neutral move rejected at T>0'))
            rd = [e for e in evs if e[0] == 'rand_double']; ex = [e for e in evs if e[0] == 'exp']
            uphill = z3.And(zdE > 0, zT > 0)
            if len(rd) == 1 and len(ex) == 1:
                u = rd[0][1]; arg, e = ex[0][1], ex[0][2]
                if symbolic:
                    ap = to_poly(arg)
                    isq = len(ap) == 1 and list(ap.values()) == [1] and len(list(ap)[0]) == 1 and defs.get(list(ap)[0][0], (None,))[0] == 'div'
                    obs.append(Ob('%s: exp is applied to a quotient' % tag, z3.Implies(uphill, z3.BoolVal(isq)), sig='exp argument'))
                    if isq:
                        _, n, d = defs[list(ap)[0][0]]
                        obs.append(Ob('%s: the exp argument is exactly -dE/T' % tag, z3.Implies(uphill, z3.And(ctx.z(padd(n, to_poly(dE))) == 0, ctx.z(padd(d, to_poly(T), -1)) == 0)),
                                      sig='exp argument'))
                else:
                    # concrete replay of the interpreter: the quotient is computed, compare it with -dE/T directly
                    obs.append(Ob('%s: exp is applied to a quotient' % tag, True, sig='exp argument'))
                    obs.append(Ob('%s: the exp argument is exactly -dE/T' % tag, z3.Implies(uphill, ctx.z(arg) * zT == -zdE), sig='exp argument'))
                obs.append(Ob('%s: uphill move accepted iff u < exp(-dE/T)' % tag, z3.Implies(uphill, (ctx.z(u) < ctx.z(e)) == z3.BoolVal(flipped)), sig='acceptance rule'))
            else:
                obs.append(Ob('%s: uphill moves at T > 0 consume exactly one uniform draw and one exp' % tag, z3.Not(uphill), info={'draws': len(rd), 'exps': len(ex)},
                              sig='draw count'))
            if flipped: state[i] = -state[i]
        obs.append(Ob('final state is the product of the accepted flips', list(final) == list(state), info={'final': final, 'tracked': state}))
        if tmode == 'zero':
            obs.append(Ob('T = 0: energy does not increase', ctx.z(to_poly(energy(final) - energy(init))) <= 0, sig='energy increased at T=0'))
            if in_order:
                # reference: sweep in label order, flip when the exact energy change is negative (ties excluded)
                ref = list(init); ties = []
                for sidx in range(sweeps * N):
                    i = sidx % N
                    d = ctx.z(dE_true(ref, i))
                    # on this path the implementation's decisions are fixed; compare decision by decision
                ok = True
                obs.append(Ob('T = 0, in order: final state equals the label-order sweep (decided step by step above)', ok))
        obs.append(Ob('twin: some step can flip uphill', z3.BoolVal(False) if tmode == 'zero' else z3.BoolVal(True), expect_sat=True) if tmode != 'zero' else None)
        return [o for o in obs if o is not None]
    return run, check


def make_facts(ctx):
    """static IR facts behind the determinism clause: external symbols reachable from the annealers, writable globals, time()"""
    texts = irsym.kernel_modules() + [irsym.random_module()]
    seed = ctx.int_var('seed', -5, 5)

    def run():
        facts = irsym.module_facts(texts)
        reach = irsym.reachable(facts['callgraph'], ['anneal_quso', 'anneal_puso'])
        ext = sorted(f for f in reach if f in facts['declared'])
        # symbolic execution of rand_seed: is time() called?
        called_time = []
        stubs = base_stubs()
        for k in ('rand_init', 'rand_double', 'rand_int'): stubs.pop(k)
        stubs['time'] = lambda it, p: (called_time.append(1), 1234)[1]
        stubs['pcg32_srandom_r'] = lambda it, rng, a, b: None
        it = Interp(texts, ctx, stubs)
        rng = it.alloc(16, 'heap', 'rng')
        it.call('rand_seed', [rng, seed])
        return facts['writable_globals'], ext, bool(called_time)

    def check(res):
        wg, ext, timed = res
        allowed = {'malloc', 'realloc', 'free', 'exp', 'ldexp', 'time', 'pcg32_srandom_r', 'pcg32_random_r', 'pcg32_boundedrand_r', 'llvm.fmuladd.f64', 'llvm.dbg.declare',
                   'llvm.memcpy.p0i8.p0i8.i64'}
        return [Ob('the annealers reference no writable global', not wg, info={'globals': wg}),
                Ob('external symbols reachable from the annealers are malloc/realloc/free/exp/ldexp/time and the PCG functions only', set(ext) <= allowed, info={'external': ext}),
                Ob('time() is called only when seed < 0', z3.BoolVal(timed) == (ctx.z(seed) < 0), sig='time() with non-negative seed')]
    return run, check


def jobs(tier, seed):
    J = []
    def add(kind, N, terms, sweeps, tmode, in_order, budget=600):
        name = '%s/N%d/%s/sweeps=%d/T=%s/in_order=%d' % (kind, N, ','.join(''.join(map(str, t)) for t in terms), sweeps, tmode, in_order)
        J.append(dict(name=name, sig='%s/T=%s/in_order=%d' % (kind, tmode, in_order), module='vq.props.c12', make='make_kernel',
                      args=dict(kind=kind, N=N, terms=[list(t) for t in terms], sweeps=sweeps, tmode=tmode, in_order=in_order),
                      budget_s=budget if tier == 'quick' else 3000, witness_all=0, witness_rate=0, max_cex=10))
    K3 = [(i,) for i in range(3)] + list(itertools.combinations(range(3), 2))
    C4 = [(0,), (3,), (0, 1), (1, 2), (2, 3)]
    P3 = [(0,), (0, 1), (0, 1, 2), (1, 2)]
    J.append(dict(name='facts', sig='facts', module='vq.props.c12', make='make_facts', args={}, budget_s=120, witness_all=0, witness_rate=0))
    # whole pipeline at T = 0 from a supplied initial state, several anneals (every anneal must start from that state)
    PIPE = [('quso', 'QUSOMatrix', [(0,), (0, 1), (1, 2)], 2, 'T0', 'mixed'), ('quso', 'QUSOMatrix', [(1, 2), (0, 1), (0,), (2, 3), (0, 2)], 2, 'T00', 'mixed'),
            ('quso', 'QUSOMatrix', [(0,), (1, 2)], 1, 'T00', 'mixed'), ('qubo', 'QUBOMatrix', [(1, 2), (0, 1), (2,)], 2, 'T0', 'up'), ('quso', 'QUSOMatrix', [(0,), (1,), (0, 1), (1, 2), (0, 2)], 2, 'T00', 'up'),
            ('quso', 'QUSOMatrix', [(0, 1), (1, 3)], 3, 'T0', 'down'), ('puso', 'PUSOMatrix', [(0, 1, 2), (1,), (0, 2)], 2, 'T0', 'mixed'),
            ('puso', 'PUSOMatrix', [(0, 1, 2), (2,)], 2, 'T00', 'up'), ('qubo', 'QUBOMatrix', [(0,), (0, 1), (1, 2)], 2, 'T0', 'mixed'),
            ('pubo', 'PUBOMatrix', [(0, 1, 2), (0,)], 2, 'T0', 'down')]
    for i, (kind, mtype, keys, na, sched, init) in enumerate(PIPE):
        J.append(dict(name='pipeline/%s/%s/%s/n=%d/%s/init=%s' % (kind, mtype, ','.join(''.join(map(str, k)) for k in keys), na, sched, init), sig='pipeline/%s' % kind,
                      module='vq.props.pipeline', make='make_pipeline',
                      args=dict(prop='C12', kind=kind, mtype=mtype, keys=[list(k) for k in keys], num_anneals=na, sched=sched, init=init, in_order=1),
                      budget_s=600 if tier == 'quick' else 3000, witness_all=0, witness_rate=0, max_cex=10))
    if tier == 'quick':
        add('quso', 3, K3, 2, 'zero', 1)
        add('quso', 3, K3, 1, 'sym', 1)
        add('quso', 3, [(0,), (0, 1), (1, 2)], 1, 'sym', 0)
        add('quso', 3, K3, 1, 'zero', 0)
        add('quso', 4, C4, 1, 'sym', 1)
        add('quso', 2, [(0,), (0, 1)], 3, 'sym', 1)
        add('quso', 3, [(0,), (1, 2)], 2, 'zero', 1)          # a spin with a field and no coupling, two sweeps
        add('quso', 3, [(0,), (2,), (1, 2)], 2, 'sym', 1)
        add('puso', 3, P3, 2, 'zero', 1)
        add('puso', 3, P3, 1, 'sym', 1)
        add('puso', 3, [(0, 1, 2), (2,)], 1, 'sym', 0)
        add('puso', 2, [(0,), (0, 1)], 2, 'sym', 1)
        add('puso', 4, [(0, 1, 2, 3), (1,)], 1, 'zero', 1)
    else:
        K4 = [(i,) for i in range(4)] + list(itertools.combinations(range(4), 2))
        for io in (1, 0):
            add('quso', 3, K3, 3 if io else 2, 'zero', io)
            add('quso', 3, K3, 2 if io else 1, 'sym', io)
            add('quso', 4, K4, 2 if io else 1, 'zero', io)
            add('quso', 4, C4, 2 if io else 1, 'sym', io)
            add('puso', 3, P3, 3 if io else 2, 'zero', io)
            add('puso', 3, P3, 2 if io else 1, 'sym', io)
            add('puso', 4, [(0, 1, 2, 3), (1,), (0, 2), (1, 2, 3)], 2 if io else 1, 'zero', io)
            add('puso', 4, [(0, 1, 2, 3), (1,), (0, 2)], 1, 'sym', io)
    return J
