"""C02 -- PCBO comparison constraints become exact non-negative penalties."""
LEVEL = 'model_checking'
RELS = ['eq', 'ne', 'lt', 'le', 'gt', 'ge']
ASSUMPTIONS = [
    'exact rational arithmetic (IEEE rounding outside the claim)',
    'P has integer coefficients within the stated bound B on the stated monomial universe (all sub-supports included: zero coefficients allowed)',
    'lam is any real > 0 (symbolic); semantic queries are asked of F/lam after a syntactic check that every coefficient is lam times a lam-free polynomial',
    'user bounds, when given, enclose P on all assignments (assumed in the solver)',
    'labels are drawn from the mixed-type pool (\'a\', 0, (1,\'t\')); label identity is structure, not solver-quantified',
]
OUTSIDE = ['coefficients beyond the bound', 'more than 3 labels', 'non-integer-valued P', 'bounds that do not enclose P', 'float rounding']
BOUNDS = {
    'quick': {'labels': 2, 'universe': 'dense (4 monomials)', 'B': 2, 'bounds_modes': ['none'], 'sequences': 'symbolic first constraint (B=1) + 1 menu constraint',
              'extra': '3 labels, linear+pair universe, B=1 for le/ge/ne'},
    'thorough': {'labels': '2 (dense, B=3) and 3 (linear+product, B=2)', 'bounds_modes': ['none', 'lo', 'hi', 'both (B=2, |lo|,|hi|<=5)'],
                 'sequences': 'symbolic first constraint (B=2) + 1..2 menu constraints'},
}


def jobs(tier, seed):
    J = []
    def add(name, make, args, budget, cost=None):
        J.append(dict(name=name, sig=name, module='vq.props.cmpcons', make=make, args=args, budget_s=budget, cost=cost or budget))
    if tier == 'quick':
        for rel in RELS:
            for log in ([True] if rel == 'eq' else [True, False]):
                b = 1 if (rel == 'ne' and not log) else 2
                add('single/%s/log=%d/n2/dense/B%d' % (rel, log, b), 'make_single', dict(rel=rel, B=b, log=log, bmode='none', n=2, shape='dense'), 200)
        for rel in ['le', 'ge', 'ne', 'eq']:
            add('single/%s/log=1/n3/lin+pair/B1' % rel, 'make_single', dict(rel=rel, B=1, log=True, bmode='none', n=3, shape='lin+pair'), 200)
        for rel, seq in [('le', ['ne_diff']), ('ne', ['le_sum']), ('gt', ['eq_diff']), ('eq', ['lt_pair'])]:
            add('seq/%s+%s/B1' % (rel, '+'.join(seq)), 'make_sequence', dict(rel=rel, B=1, log=True, seq=seq), 200)
        # a second constraint that takes the unary-slack (log_trick=False) special forms on a model that already owns ancillas
        for rel, seq in [('lt', ['le_sum_nolog']), ('ge', ['gt_lin']), ('le', ['ne_nolog'])]:
            add('seq/%s+%s/B1/nolog' % (rel, '+'.join(seq)), 'make_sequence', dict(rel=rel, B=1, log=False, seq=seq), 200)
        # a trivially satisfied constraint after a recorded one of the relation it delegates to
        for rel, seq in [('le', ['lt_trivial']), ('ge', ['gt_trivial']), ('lt', ['le_trivial', 'ge_trivial'])]:
            add('seq/%s+%s/B1/trivial' % (rel, '+'.join(seq)), 'make_sequence', dict(rel=rel, B=1, log=True, seq=seq), 200)
    else:
        for rel, seq in [('le', ['lt_trivial']), ('ge', ['gt_trivial']), ('lt', ['le_trivial', 'ge_trivial']), ('le', ['gt_trivial', 'lt_trivial']), ('gt', ['ge_trivial'])]:
            add('seq/%s+%s/B2/trivial' % (rel, '+'.join(seq)), 'make_sequence', dict(rel=rel, B=2, log=True, seq=seq), 1500)
        for rel in RELS:
            for log in ([True] if rel == 'eq' else [True, False]):
                add('single/%s/log=%d/n2/dense/B3' % (rel, log), 'make_single', dict(rel=rel, B=3, log=log, bmode='none', n=2, shape='dense'), 1500)
                add('single/%s/log=%d/n3/lin+prod/B2' % (rel, log), 'make_single', dict(rel=rel, B=2, log=log, bmode='none', n=3, shape='lin+prod'), 1500)
                for bm in ['lo', 'hi', 'both']:
                    add('single/%s/log=%d/n2/dense/B2/bounds=%s' % (rel, log, bm), 'make_single',
                        dict(rel=rel, B=2, log=log, bmode=bm, n=2, shape='dense', bb=5), 1800)
        menu = ['le_sum', 'le_sum_nolog', 'ge_weighted', 'lt_pair', 'gt_lin', 'eq_diff', 'ne_diff', 'ne_nolog']
        for i, rel in enumerate(RELS):
            for j, m in enumerate(menu):
                if (i + j) % 2 == 0:
                    add('seq/%s+%s/B2' % (rel, m), 'make_sequence', dict(rel=rel, B=2, log=True, seq=[m]), 1500)
            add('seq/%s+%s+%s/B1' % (rel, menu[i], menu[(i + 3) % 8]), 'make_sequence', dict(rel=rel, B=1, log=bool(i % 2), seq=[menu[i], menu[(i + 3) % 8]]), 1500)
    return J


def post(results, tier, seed):
    """label-symbolic CrossHair lemmas on the real helper functions (auxiliary layer, see DESIGN.md 2.3)"""
    from ..lemmas.run import as_extra
    return as_extra('keys', ['lemma_num_bits_log', 'lemma_num_bits_nolog'], 'C02', timeout=20 if tier == 'quick' else 60)
