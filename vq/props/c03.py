"""C03 -- PCSO comparison constraints become exact non-negative penalties on spins."""
LEVEL = 'model_checking'
RELS = ['eq', 'ne', 'lt', 'le', 'gt', 'ge']
ASSUMPTIONS = [
    'exact rational arithmetic (IEEE rounding outside the claim)',
    'H has integer coefficients within the stated bound B on the dense 2-spin universe {(), z0, z1, z0z1} (all sub-supports included)',
    'lam is any real > 0 (symbolic); semantic queries are asked of F/lam after a syntactic homogeneity check',
    'user bounds, when given, enclose H on all assignments (assumed in the solver)',
]
OUTSIDE = ['coefficients beyond the bound', 'more than 2 spins in the symbolic constraint (3 in sequences)', 'non-integer-valued H', 'float rounding']
BOUNDS = {
    'quick': {'spins': 2, 'universe': 'dense (4 monomials)', 'B': 1, 'sequences': 'symbolic first constraint (B=1) + 1 menu constraint'},
    'thorough': {'spins': 2, 'B': 2, 'bounds_modes': ['none', 'both (B=1, |lo|,|hi|<=4)'], 'sequences': 'symbolic first (B=1) + 1..2 menu constraints'},
}


def jobs(tier, seed):
    J = []
    def add(name, make, args, budget, cost=None):
        args = dict(args, spin=True)
        J.append(dict(name=name, sig=name, module='vq.props.cmpcons', make=make, args=args, budget_s=budget, cost=cost or budget))
    if tier == 'quick':
        for rel in RELS:
            for log in ([True] if rel == 'eq' else [True, False]):
                add('single/%s/log=%d/n2/dense/B1' % (rel, log), 'make_single', dict(rel=rel, B=1, log=log, bmode='none', n=2, shape='dense'), 300)
        for rel in ['gt', 'le']:
            add('single/%s/log=1/n2/dense/B1/bounds=both' % rel, 'make_single', dict(rel=rel, B=1, log=True, bmode='both', n=2, shape='dense', bb=3), 300)
        add('single/gt/log=1/n2/dense/B1/bounds=hi', 'make_single', dict(rel='gt', B=1, log=True, bmode='hi', n=2, shape='dense', bb=3), 300)
        add('single/eq/log=1/n3/lin+pair/B1+2', 'make_single', dict(rel='eq', B=1, log=True, bmode='none', n=3, shape='lin+pair', Bbig=2), 400)
        for rel, seq in [('le', ['ne_diff']), ('ne', ['le_sum']), ('gt', ['eq_diff'])]:
            add('seq/%s+%s/B1' % (rel, '+'.join(seq)), 'make_sequence', dict(rel=rel, B=1, log=True, seq=seq), 300)
        for rel, seq in [('le', ['lt_trivial']), ('ge', ['gt_trivial'])]:
            add('seq/%s+%s/B1/trivial' % (rel, '+'.join(seq)), 'make_sequence', dict(rel=rel, B=1, log=True, seq=seq), 300)
    else:
        for rel, seq in [('le', ['lt_trivial']), ('ge', ['gt_trivial']), ('lt', ['ge_trivial']), ('gt', ['le_trivial'])]:
            add('seq/%s+%s/B1/trivial' % (rel, '+'.join(seq)), 'make_sequence', dict(rel=rel, B=1, log=True, seq=seq), 2400)
        for rel in RELS:
            for log in ([True] if rel == 'eq' else [True, False]):
                add('single/%s/log=%d/n2/dense/B2' % (rel, log), 'make_single', dict(rel=rel, B=2, log=log, bmode='none', n=2, shape='dense'), 2400)
                add('single/%s/log=%d/n2/dense/B1/bounds=both' % (rel, log), 'make_single',
                    dict(rel=rel, B=1, log=log, bmode='both', n=2, shape='dense', bb=4), 2400)
        menu = ['le_sum', 'le_sum_nolog', 'ge_weighted', 'lt_pair', 'gt_lin', 'eq_diff', 'ne_diff', 'ne_nolog']
        for i, rel in enumerate(RELS):
            for j, m in enumerate(menu):
                if (i + j) % 3 == 0:
                    add('seq/%s+%s/B1' % (rel, m), 'make_sequence', dict(rel=rel, B=1, log=True, seq=[m]), 2400)
            add('seq/%s+%s+%s/B1' % (rel, menu[i], menu[(i + 3) % 8]), 'make_sequence', dict(rel=rel, B=1, log=bool(i % 2), seq=[menu[i], menu[(i + 3) % 8]]), 2400)
    return J
