"""C01 -- degree reduction never undercuts the model and is exact on consistent ancillas."""
import itertools

import z3

from ..core import Ob
from ..symx import Sym, to_poly, padd, pscale
from .. import oracle as O

LEVEL = 'model_checking'
ASSUMPTIONS = [
    'exact rational arithmetic (IEEE rounding outside the claim)',
    'models are in refreshed bookkeeping state (harness calls M.refresh() first, as the property quantifies over refreshed models)',
    'coefficients are unbounded reals, one per monomial of the stated universe, zero allowed (so every sub-support is covered)',
    'constant penalty: inequality part assumes lam >= |coefficient of every boolean-form term of degree > deg| (for spin models the boolean form is computed on the oracle side); exactness part assumes nothing about lam',
    'labels are drawn from the mixed-type pool (\'a\', 0, (1,\'t\'), \'b\', 7, \'c\') -- labels of one type must be mutually orderable, as the library requires; label identity / monomial universe / pairs hints are enumerated structure',
]
OUTSIDE = ['more than 6 labels', 'degree > 5', 'float rounding', 'models with stale bookkeeping (see C14)', 'non-numeric penalties (see C16)']
BOUNDS = {
    'quick': {'boolean': 'n=4: 3 low-degree + 4 high-degree monomials, deg 2 and 3; n=5 deg 3 with 4 monomials', 'spin': 'n=3: 3 low-degree + the 3-body term',
              'lam': ['None', 'symbolic constant', 'abs', '1+abs'], 'pairs': ['None', 'one pair', 'pair with unknown label'], 'mapping': 'first-appearance, and rotated with set_mapping (5 jobs)'},
    'thorough': {'boolean': 'n=4: 3 low + all 5 monomials of degree 3-4, deg 2,3; n=5: 6 monomials degree 3-5, deg 2,3,4; n=6: 5 monomials',
                 'spin': 'n=3 (4 monomials) and n=4 (3 low + 4-body term; two high-degree monomials without low-degree terms)',
                 'lam': ['None', 'symbolic constant', 'abs', '1+abs'], 'pairs': ['None', 'every single pair of the first term', 'pair with unknown label']},
}


def spin_to_bool_coeffs(model_polys):
    """{frozenset labels -> poly} spin form  ->  boolean form, via z = 1 - 2x"""
    out = {}
    for K, p in model_polys.items():
        K = sorted(K, key=repr)
        for r in range(len(K) + 1):
            for S in itertools.combinations(K, r):
                fs = frozenset(S)
                q = padd(out.get(fs, {}), pscale(p, (-2) ** r))
                if q: out[fs] = q
                else: out.pop(fs, None)
    return out


def make_reduce(ctx, kind, n, U, method, deg, lam_mode, pairs=None, cons=False, remap=False):
    """kind: PUBO|PCBO|PUSO|PCSO; U: list of index tuples into the label pool"""
    import qubovert as qv
    from qubovert.utils import PUBOMatrix, PUSOMatrix, QUBOMatrix, QUSOMatrix
    labels = O.LABEL_POOL[:n]
    keys = [tuple(labels[i] for i in k) for k in U]
    coefs = {k: ctx.real_var('c' + ''.join(map(str, u))) for k, u in zip(keys, U)}
    lam = None
    if lam_mode == 'const':
        lam = ctx.real_var('lam')
    elif lam_mode == 'abs':
        lam = abs
    elif lam_mode == 'abs1':
        lam = lambda v: 1 + abs(v)      # noqa
    T = getattr(qv, kind)
    src_spin = kind in ('PUSO', 'PCSO')
    tgt_spin = method in ('to_quso', 'to_puso')
    want_type = {'to_qubo': QUBOMatrix, 'to_quso': QUSOMatrix, 'to_pubo': PUBOMatrix, 'to_puso': PUSOMatrix}[method]
    pr = None
    if pairs is not None:
        pr = {tuple(labels[i] if isinstance(i, int) and i < n else 'nosuch' for i in p) for p in pairs}

    def run():
        M = T({k: coefs[k] for k in keys})
        if cons:
            if src_spin:
                M.add_constraint_lt_zero({(labels[0],): 1, (labels[1],): 1, (): -1}, lam=1)
            else:
                M.add_constraint_lt_zero({(labels[0],): 1, (labels[1],): 2, (): -2}, lam=1)
        M.refresh()
        if remap:
            # a user-chosen (rotated) integer labelling: a consistent bookkeeping state in which the labels no longer follow first appearance
            mp0 = M.mapping
            M.set_mapping({l: (i + 1) % len(mp0) for l, i in mp0.items()})
        before = O.snapshot(M)
        kw = dict(lam=lam, pairs=pr)
        if method in ('to_pubo', 'to_puso'):
            kw['deg'] = deg
        D = getattr(M, method)(**kw)
        nv = M.num_binary_variables
        mp = M.mapping
        used = {i for k in D for i in k}
        tot = max(used | {nv - 1}) + 1 if (used or nv) else 0
        bad_conv = []
        if tot <= 7:
            vals = (1, -1) if tgt_spin else (0, 1)
            for xs in itertools.product(vals, repeat=tot):
                for form in (dict(enumerate(xs)), list(xs)):
                    got = M.convert_solution(form, spin=tgt_spin)
                    want = {}
                    for l, i in mp.items():
                        b = (1 - xs[i]) // 2 if tgt_spin else xs[i]
                        want[l] = (1 - 2 * b) if src_spin else b
                    if got != want:
                        bad_conv.append((xs, type(form).__name__)); break
        return M, D, nv, mp, before, O.snapshot(M), bad_conv, M.variables

    def check(res):
        M, D, nv, mp, before, after, bad_conv, mvars = res
        obs = []
        d = deg if deg is not None else 2
        used = {i for k in D for i in k}
        anc = sorted(v for v in used if not (isinstance(v, int) and v < nv))
        obs.append(Ob('result type', type(D) is want_type, info={'type': type(D).__name__}))
        obs.append(Ob('degree <= requested', all(len(k) <= d for k in D), info={'keys': [list(k) for k in D if len(k) > d][:3]}))
        obs.append(Ob('labels are non-negative ints; labels >= n are ancillas', all(isinstance(v, int) and 0 <= v for v in used),
                      info={'used': sorted(map(repr, used)), 'n': nv}))
        obs.append(Ob('mapping is a bijection variables -> 0..n-1', set(mp) == set(mvars) and sorted(mp.values()) == list(range(nv))))
        obs.append(Ob('model unchanged by the call', before == after))
        obs.append(Ob('convert_solution undoes the relabelling and ignores ancillas', not bad_conv, info={'first_bad': bad_conv[:2]}))
        if len(anc) > 6 or nv + len(anc) > 12 or not all(isinstance(v, int) for v in used):
            obs.append(Ob('OUTSIDE-BOUND: too many ancillas for the expansion', True)); return obs
        sb = {v: z3.Bool('s%d' % v) for v in range(max([nv - 1] + list(anc)) + 1)}
        Dv = O.zbool_value(ctx, D, sb, tgt_spin)
        Mv = O.zbool_value(ctx, M, sb, src_spin, lab2idx=mp)
        # (i) never undercuts (default / callable penalty: no assumption; constant: lam >= |coef of reduced boolean-form terms|)
        assume = []
        if lam_mode == 'const':
            mpoly = O.poly_of_model(M, src_spin)
            bform = spin_to_bool_coeffs(mpoly) if src_spin else mpoly
            lz = ctx.z(lam)
            for K, p in bform.items():
                if len(K) > d:
                    cz = ctx.z(p); assume += [lz >= cz, lz >= -cz]
        obs.append(Ob('D(s) >= M(convert(s)) for all s', z3.Implies(z3.And(assume), Dv >= Mv) if assume else Dv >= Mv, sig='never undercuts'))
        # (ii) exact on some ancilla extension, whatever the penalty
        alts = []
        for as_ in itertools.product((False, True), repeat=len(anc)):
            alts.append(z3.substitute(Dv, *[(sb[v], z3.BoolVal(b)) for v, b in zip(anc, as_)]) == Mv if anc else Dv == Mv)
        obs.append(Ob('every x has an extension with D = M', z3.Or(alts) if len(alts) > 1 else alts[0], sig='exact on an ancilla extension'))
        if anc:
            obs.append(Ob('twin: some ancilla setting is penalised', Dv > Mv, expect_sat=True))
        return obs
    return run, check


def _hi(n, lo_deg, count, seed=0):
    import random
    allm = [k for d in range(lo_deg, n + 1) for k in itertools.combinations(range(n), d)]
    rng = random.Random(seed)
    if count >= len(allm):
        return allm
    return sorted(rng.sample(allm, count), key=lambda k: (len(k), k))


def jobs(tier, seed):
    J = []
    def add(kind, n, U, method, deg, lam_mode, pairs=None, cons=False, budget=300, remap=False):
        name = '%s/%s/deg=%s/n%d/U=%s/lam=%s/pairs=%s%s%s' % (kind, method, deg, n, ','.join(''.join(map(str, k)) or '-' for k in U), lam_mode,
                                                            pairs, '/cons' if cons else '', '/remap' if remap else '')
        sig = '%s/%s/lam=%s%s' % (kind, method, lam_mode, '/pairs' if pairs else '')
        J.append(dict(name=name, sig=sig, module='vq.props.c01', make='make_reduce',
                      args=dict(kind=kind, n=n, U=[list(k) for k in U], method=method, deg=deg, lam_mode=lam_mode,
                                pairs=[list(p) for p in pairs] if pairs else None, cons=cons, remap=remap), budget_s=budget))
    lo = [(), (0,), (0, 1)]
    if tier == 'quick':
        hi4 = [(0, 1, 2), (0, 1, 3), (1, 2, 3), (0, 1, 2, 3)]
        for lam_mode in ['none', 'const', 'abs1']:
            add('PUBO', 4, lo + hi4, 'to_qubo', 2, lam_mode)
        add('PUBO', 4, [(0,), (0, 1, 2), (0, 1, 2, 3)], 'to_quso', 2, 'none')
        add('PUBO', 4, lo + hi4[1:], 'to_qubo', 2, 'abs')
        add('PUBO', 4, lo + hi4, 'to_pubo', 3, 'none')
        add('PUBO', 4, [(0,), (0, 1, 2), (0, 1, 2, 3)], 'to_puso', 3, 'const')
        add('PUBO', 4, lo + hi4, 'to_qubo', 2, 'none', pairs=[(2, 3)])
        add('PUBO', 4, lo + hi4[:3], 'to_qubo', 2, 'const', pairs=[(0, 9)])
        add('PUBO', 5, [(0,), (0, 1, 2, 3), (1, 2, 3, 4), (0, 2, 4), (0, 1, 2, 3, 4)], 'to_pubo', 3, 'none')
        add('PUBO', 5, [(0,), (0, 1, 2, 3), (1, 2, 3, 4), (0, 2, 4)], 'to_qubo', 2, 'none')
        add('PUBO', 5, [(0, 1), (2, 3, 4), (0, 1, 4), (0, 1, 2, 3)], 'to_qubo', 2, 'none')
        add('PUBO', 5, [(3, 4), (0, 1, 2), (0, 3, 4), (1, 2, 3, 4)], 'to_qubo', 2, 'const')
        # seeded extra shapes: random 4-monomial universes over 5 labels (degree 2..4)
        import random
        rng = random.Random(1000 + seed)
        pool = [k for d in (2, 3, 4) for k in itertools.combinations(range(5), d)]
        for i in range(3):
            Ux = sorted(rng.sample(pool, 4), key=lambda k: (rng.random()))
            add('PUBO', 5, Ux, 'to_qubo', 2, ['none', 'const', 'abs1'][i])
        add('PCBO', 3, [(), (0,), (0, 1, 2), (1, 2)], 'to_qubo', 2, 'none', cons=True)
        add('PCBO', 4, lo + hi4[:3], 'to_qubo', 2, 'const')
        for method, deg in [('to_quso', 2), ('to_qubo', 2)]:
            add('PUSO', 3, lo + [(0, 1, 2)], method, deg, 'none')
        add('PUSO', 3, lo + [(0, 1, 2)], 'to_quso', 2, 'const')
        add('PUSO', 4, [(0, 1, 2, 3)], 'to_puso', 3, 'none')
        add('PCSO', 3, [(0,), (0, 1, 2)], 'to_quso', 2, 'none')
        # after set_mapping with a rotated labelling
        add('PUSO', 3, lo + [(0, 1, 2)], 'to_qubo', 2, 'none', remap=True)
        add('PUSO', 4, [(0, 1), (1, 2, 3)], 'to_pubo', 2, 'const', remap=True)
        add('PCSO', 3, [(0,), (0, 1, 2)], 'to_quso', 2, 'none', remap=True)
        add('PUBO', 4, [(0,), (0, 1, 2), (0, 1, 2, 3)], 'to_qubo', 2, 'none', remap=True)
        add('PCBO', 4, [(0,), (1, 2, 3)], 'to_puso', 2, 'const', remap=True)
    else:
        for kind in ('PUBO', 'PCBO', 'PUSO', 'PCSO'):
            for method, deg in [('to_qubo', 2), ('to_quso', 2), ('to_pubo', 3), ('to_puso', 2)]:
                add(kind, 4, [(0,), (0, 1), (1, 2, 3), (0, 1, 2, 3)], method, deg, 'const' if method in ('to_qubo', 'to_puso') else 'none', remap=True, budget=1200)
        hi4 = [(0, 1, 2), (0, 1, 3), (0, 2, 3), (1, 2, 3), (0, 1, 2, 3)]
        cross = [(0,), (0, 1, 2), (1, 2, 3), (0, 1, 2, 3)]
        for kind in ['PUBO', 'PCBO']:
            for lam_mode in ['none', 'const', 'abs', 'abs1']:
                for method, deg in [('to_qubo', 2), ('to_pubo', 3)]:
                    if kind == 'PUBO' or lam_mode in ('none', 'const'):
                        add(kind, 4, lo + hi4, method, deg, lam_mode, budget=1200)
                for method, deg in [('to_quso', 2), ('to_puso', 3)]:
                    if kind == 'PUBO' or lam_mode == 'none':
                        add(kind, 4, cross, method, deg, lam_mode, budget=1200)
        first = (0, 1, 2, 3)
        for p in itertools.combinations(first, 2):
            add('PUBO', 4, lo + hi4, 'to_qubo', 2, 'none', pairs=[p], budget=1200)
        add('PUBO', 4, lo + hi4, 'to_qubo', 2, 'const', pairs=[(0, 9)], budget=1200)
        add('PUBO', 4, lo + hi4, 'to_pubo', 3, 'const', pairs=[(0, 1), (2, 3)], budget=1200)
        U5 = [(0,), (0, 1, 2), (0, 1, 2, 3), (1, 2, 3, 4), (0, 2, 4), (0, 1, 2, 3, 4)]
        for method, deg in [('to_qubo', 2), ('to_pubo', 3), ('to_pubo', 4)]:
            for lam_mode in ['none', 'const']:
                add('PUBO', 5, U5, method, deg, lam_mode, budget=1200)
        add('PUBO', 5, [(0,), (0, 1, 2), (1, 2, 3, 4)], 'to_quso', 2, 'none', budget=1200)
        add('PUBO', 5, [(0,), (0, 1, 2), (1, 2, 3, 4)], 'to_puso', 3, 'const', budget=1200)
        add('PUBO', 6, [(0, 1, 2), (3, 4, 5), (0, 1, 5), (0, 1, 2, 3), (2, 3, 4, 5)], 'to_qubo', 2, 'none', budget=1200)
        add('PUBO', 6, [(0, 1, 2), (3, 4, 5), (0, 1, 5), (0, 1, 2, 3), (2, 3, 4, 5)], 'to_pubo', 3, 'const', budget=1200)
        add('PUBO', 5, [(0, 1), (2, 3, 4), (0, 1, 4), (0, 1, 2, 3)], 'to_qubo', 2, 'none', budget=1200)
        add('PCBO', 3, [(), (0,), (0, 1, 2), (1, 2)], 'to_qubo', 2, 'none', cons=True, budget=1200)
        add('PCBO', 3, [(), (0,), (0, 1, 2), (1, 2)], 'to_quso', 2, 'const', cons=True, budget=1200)
        for kind in ['PUSO', 'PCSO']:
            for lam_mode in ['none', 'const', 'abs1']:
                for method, deg in [('to_quso', 2), ('to_qubo', 2)]:
                    add(kind, 3, lo + [(0, 1, 2)], method, deg, lam_mode, budget=1200)
            add(kind, 4, lo + [(0, 1, 2, 3)], 'to_quso', 2, 'none', budget=1200)
            add(kind, 4, [(0, 1, 2), (0, 1, 2, 3)], 'to_puso', 3, 'none', budget=1200)
            add(kind, 4, [(0, 1, 2), (1, 2, 3)], 'to_quso', 2, 'const', budget=1200)
        add('PCSO', 3, [(0,), (0, 1, 2)], 'to_quso', 2, 'none', cons=True, budget=1200)
    return J
