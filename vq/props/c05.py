"""C05 -- model arithmetic and evaluation agree with polynomial arithmetic."""
import itertools
import operator

import z3

from ..core import Ob
from ..symx import Sym, to_poly, padd, pmul
from .. import oracle as O

LEVEL = 'model_checking'
ASSUMPTIONS = [
    'exact rational arithmetic (IEEE rounding outside the claim)',
    'operand coefficients and scalars are unbounded symbolic reals, zero allowed (all sub-supports of the operand universes are covered)',
    'operand types, label sets (2 labels, mixed types; ints for Matrix types), operators and tree shapes are enumerated; the operator is a realised bounded solver integer',
    'a/c: c is a non-zero symbolic real',
    'canonical storage is checked as: no stored zero, no two keys denoting the same monomial, no repeated label inside a key, key equals the class\'s own squash_key of itself; label-symbolic sorting of squash_key is a separate CrossHair lemma',
]
OUTSIDE = ['more than 2 labels per operand (3 in thorough)', 'tree depth > 2', 'exponents > 3', 'floor division', 'float rounding']
BOUNDS = {'quick': {'operand universe': '3 monomials over 2 labels; dict operands add an unsorted and a repeated-label key', 'operators': 22, 'pairs': 'each of the 10 types x {same type, dict, number}',
                    'trees': '(a op1 b) op2 c for op1,op2 in {+,-,*} on PUBO, PUSO, QUBO, QUSOMatrix'},
          'thorough': {'pairs': 'full 5x5 boolean and 5x5 spin type matrices + dict + number', 'labels': 3}}

OPS = [
    # name, function(a, b), expected(av, bv) on values, kind
    ('a+b', lambda a, b: a + b, lambda x, y: x + y, 'bin'),
    ('a-b', lambda a, b: a - b, lambda x, y: x - y, 'bin'),
    ('a*b', lambda a, b: a * b, lambda x, y: x * y, 'bin'),
    ('b+a', lambda a, b: b + a, lambda x, y: x + y, 'ref'),
    ('b-a', lambda a, b: b - a, lambda x, y: y - x, 'ref'),
    ('b*a', lambda a, b: b * a, lambda x, y: x * y, 'ref'),
    ('a+=b', lambda a, b: operator.iadd(a, b), lambda x, y: x + y, 'inp'),
    ('a-=b', lambda a, b: operator.isub(a, b), lambda x, y: x - y, 'inp'),
    ('a*=b', lambda a, b: operator.imul(a, b), lambda x, y: x * y, 'inp'),
    ('-a', lambda a, b: -a, lambda x, y: -x, 'un'),
    ('+a', lambda a, b: +a, lambda x, y: x, 'un'),
    ('a**1', lambda a, b: a ** 1, lambda x, y: x, 'un'),
    ('a**2', lambda a, b: a ** 2, lambda x, y: x * x, 'un'),
    ('a**3', lambda a, b: a ** 3, lambda x, y: x * x * x, 'un'),
    ('a**=2', lambda a, b: operator.ipow(a, 2), lambda x, y: x * x, 'uninp'),
    ('a**4', lambda a, b: a ** 4, lambda x, y: x * x * x * x, 'un'),
    ('a**5', lambda a, b: a ** 5, lambda x, y: x * x * x * x * x, 'un'),
    ('a**6', lambda a, b: a ** 6, lambda x, y: (x * x * x) * (x * x * x), 'un'),
    ('a**=6', lambda a, b: operator.ipow(a, 6), lambda x, y: (x * x * x) * (x * x * x), 'uninp'),
    ('a/c', lambda a, b: a / b, None, 'div'),
    ('a/=c', lambda a, b: operator.itruediv(a, b), None, 'divinp'),
    ('a+=a', lambda a, b: operator.iadd(a, a), lambda x, y: x + x, 'alias'),
    ('a-=a', lambda a, b: operator.isub(a, a), lambda x, y: x - x, 'alias'),
    ('a*=a', lambda a, b: operator.imul(a, a), lambda x, y: x * x, 'alias'),
    ('a+a', lambda a, b: a + a, lambda x, y: x + x, 'un'),
    ('a*a', lambda a, b: a * a, lambda x, y: x * x, 'un'),
]


def _labels(tn, n):
    return list(range(n)) if tn in O.MATRIX_TYPES else O.LABEL_POOL[:n]


def _universes(tn, bk, labs, shape=None):
    l0, l1 = labs[0], labs[1]
    if shape == 'small':       # two-term operands for the expensive operators (high powers)
        return [(l0,), (l1,)], [(l1,), ()]
    if shape == 'quadprod':
        # quadratic operands whose products collapse back to degree <= 2 (idempotent booleans / involutive spins)
        l2 = labs[2]
        if tn in O.SPIN_TYPES:
            return [(l0, l2), (l1,), ()], [(l1, l2), (), (l2,)]
        return [(l0, l1), (l1,), ()], [(l0, l1), (l0,), ()]
    if tn in O.DEG2_TYPES:
        Ua = [(), (l0,), (l1,)]
        Ub = [(), (l1,), (l0,)] if bk != 'dict' else [(l1,), (l0,), (l1, l1)]
    else:
        Ua = [(), (l0,), (l0, l1)]
        Ub = [(), (l1,), (l0, l1)] if bk != 'dict' else [(l1,), (l1, l0), (l0, l0, l1)]
    if len(labs) > 2:
        l2 = labs[2]
        Ua = Ua + [(l2,)]
        Ub = Ub + ([(l0, l2)] if tn not in O.DEG2_TYPES else [(l2,)])
    return Ua, Ub


def structural(T, spin, R):
    """canonical-storage checks that need no solver"""
    issues = []
    seen = set()
    for k in R:
        ck = O.canon_key(k, spin)
        if ck in seen: issues.append(('duplicate monomial', k))
        seen.add(ck)
        if len(set(k)) != len(k): issues.append(('repeated label in key', k))
        if tuple(T.squash_key(k)) != tuple(k): issues.append(('key not in squashed order', k))
    return issues


def make_binop(ctx, tn, bk, ob=None, nlab=2, ops=None, shape=None):
    """a: model of type tn; b: same type | other type name (ob) | dict | number; operator chosen by a realised selector"""
    TY = O.types()
    T = TY[tn]
    spin = O.is_spin_name(tn)
    labs = _labels(ob if (ob in O.MATRIX_TYPES) else tn, nlab)
    Ua, Ub = _universes(tn if ob not in O.DEG2_TYPES else ob, bk, labs, shape)
    ca = {k: ctx.real_var('a%d' % i) for i, k in enumerate(Ua)}
    cb = {k: ctx.real_var('b%d' % i) for i, k in enumerate(Ub)}
    sc = ctx.real_var('s')
    opl = [o for o in OPS if (ops is None and o[0] not in ('a**4', 'a**5', 'a**6', 'a**=6')) or (ops is not None and o[0] in ops)]
    sel = ctx.int_var('op', 0, len(opl) - 1)
    ev = O.spin_poly if spin else O.bool_poly

    def run():
        name, f, expf, kind = opl[int(sel)]
        A = T({k: ca[k] for k in Ua})
        if kind in ('div', 'divinp'):
            if not sc: raise_zero = True
            Bo = sc
        elif bk == 'same': Bo = T({k: cb[k] for k in Ub})
        elif bk == 'other': Bo = TY[ob]({k: cb[k] for k in Ub})
        elif bk == 'dict': Bo = {k: cb[k] for k in Ub}
        else: Bo = sc
        isnum = not isinstance(Bo, dict)
        Ab = O.snapshot(A)
        Bb = None if isnum else O.snapshot(Bo)
        Apoly = O.poly_of_model(A, spin)
        Bpoly = None if isnum else O.poly_of_model(Bo, spin)
        keyerr = None
        try:
            if kind in ('div', 'divinp') and not sc:
                try:
                    R = f(A, Bo)
                except ZeroDivisionError:
                    return dict(name=name, kind=kind, zerodiv=True)
                return dict(name=name, kind=kind, zerodiv=False)
            R = f(A, Bo)
        except KeyError as e:
            keyerr = str(e)[:120]
            return dict(name=name, kind=kind, keyerr=keyerr, Apoly=Apoly, Bpoly=Bpoly, isnum=isnum)
        out = dict(name=name, kind=kind, keyerr=None, R=R, A=A, Bo=Bo, isnum=isnum, Apoly=Apoly, Bpoly=Bpoly,
                   A_unchanged=O.snapshot(A) == Ab, B_unchanged=isnum or O.snapshot(Bo) == Bb, same_obj=R is A)
        # models denoting the same function compare equal: rebuild the result from its own items in reversed order
        if isinstance(R, dict):
            R2 = type(R)(dict(reversed(list(R.items()))))
            out['eq_rebuilt'] = bool(R == R2)
            if kind == 'bin' and name in ('a+b', 'a*b') and bk == 'same':
                out['eq_commuted'] = bool(R == f(Bo, A))
        return out

    def check(res):
        obs = []
        name, kind = res['name'], res['kind']
        if 'zerodiv' in res:
            return [Ob('division by zero raises ZeroDivisionError [%s]' % name, True)]
        if res.get('keyerr') is not None:
            # documented only for degree-2 types when some product term has more than 2 distinct labels
            legit = False
            if tn in O.DEG2_TYPES and ('*' in name):
                Ap = res['Apoly']; Bp = res['Bpoly'] if res['Bpoly'] is not None else Ap
                if name in ('a*a', 'a*=a', 'a**2', 'a**3', 'a**=2', 'a**4', 'a**5', 'a**6', 'a**=6') or res['isnum']:
                    Bp = Ap
                legit = any(len(O.canon_key(tuple(ka) + tuple(kb), spin)) > 2 for ka in Ap for kb in Bp)
                if name == 'a**3':
                    legit = legit or any(len(O.canon_key(tuple(ka) + tuple(kb) + tuple(kc), spin)) > 2 for ka in Ap for kb in Ap for kc in Ap)
            return [Ob('KeyError only for a degree-2 type whose product has a term of degree > 2 [%s]' % name, legit, info={'keyerr': res['keyerr']},
                       sig='KeyError in %s' % name)]
        R, A, Bo = res['R'], res['A'], res['Bo']
        WT = type(Bo) if (kind == 'ref' and bk == 'other') else T      # model op model: the left operand's type
        obs.append(Ob('result has the type of the (left) model operand [%s]' % name, type(R) is WT, info={'type': type(R).__name__}, sig='type of ' + name))
        if kind in ('inp', 'uninp', 'divinp', 'alias'):
            obs.append(Ob('in-place operator returns the same object [%s]' % name, res['same_obj'], sig='in-place identity ' + name))
        else:
            obs.append(Ob('left operand unchanged [%s]' % name, res['A_unchanged'], sig='operand mutated by ' + name))
            obs.append(Ob('result is a new object [%s]' % name, not res['same_obj'], sig='aliasing by ' + name))
        if kind != 'alias':
            obs.append(Ob('right operand unchanged [%s]' % name, res['B_unchanged'], sig='operand mutated by ' + name))
        if type(R) is not WT:
            return obs
        iss = structural(WT, spin, R)
        obs.append(Ob('canonical keys [%s]' % name, not iss, info={'issues': [(i[0], repr(i[1])) for i in iss][:3]}, sig='canonical keys ' + name))
        obs.append(Ob('no zero coefficient is stored [%s]' % name, z3.And([ctx.z(v) != 0 for v in R.values()] or [z3.BoolVal(True)]), sig='stored zero ' + name))
        obs.append(Ob('equal to a model rebuilt from its own terms [%s]' % name, bool(res.get('eq_rebuilt', True)), sig='== rebuilt ' + name))
        if 'eq_commuted' in res:
            obs.append(Ob('a op b == b op a [%s]' % name, bool(res['eq_commuted']), sig='== commuted ' + name))
        # value on every assignment
        Ap, Bp = res['Apoly'], res['Bpoly']
        expf = dict((o[0], o[2]) for o in OPS)[name]
        alll = sorted({i for k in list(Ap) + list(Bp or []) + [O.canon_key(k, spin) for k in R] for i in k}, key=repr)
        bad = []
        for x in O.assigns(alll, spin):
            av = Sym(ev({tuple(k): Sym(p) for k, p in Ap.items()}, x))
            if kind in ('div', 'divinp'):
                rv_ = Sym(ev(R, x))
                bad.append(ctx.z(rv_ * sc - av) != 0)
                continue
            bv = sc if res['isnum'] else Sym(ev({tuple(k): Sym(p) for k, p in Bp.items()}, x))
            exp = expf(av, bv)
            rv_ = Sym(ev(R, x))
            d = to_poly(rv_ - exp)
            if d:
                bad.append(ctx.z(d) != 0)
        obs.append(Ob('value identity on all assignments [%s]' % name, z3.Not(z3.Or(bad)) if bad else True, sig='value of ' + name))
        return obs
    return run, check


def make_tree(ctx, tn, nlab=2):
    """(a op1 b) op2 c with op1, op2 in {+,-,*} chosen by realised selectors; a,b,c of type tn"""
    T = O.types()[tn]
    spin = O.is_spin_name(tn)
    labs = _labels(tn, nlab)
    Ua, Ub = _universes(tn, 'same', labs)
    Ua, Ub = Ua[1:], Ub[1:]
    Uc = [(), (labs[0],)]
    ca = {k: ctx.real_var('a%d' % i) for i, k in enumerate(Ua)}
    cb = {k: ctx.real_var('b%d' % i) for i, k in enumerate(Ub)}
    cc = {k: ctx.real_var('c%d' % i) for i, k in enumerate(Uc)}
    s1, s2 = ctx.int_var('op1', 0, 2), ctx.int_var('op2', 0, 2)
    B3 = [('+', operator.add), ('-', operator.sub), ('*', operator.mul)]
    ev = O.spin_poly if spin else O.bool_poly

    def run():
        (n1, f1), (n2, f2) = B3[int(s1)], B3[int(s2)]
        A, B, C = T({k: ca[k] for k in Ua}), T({k: cb[k] for k in Ub}), T({k: cc[k] for k in Uc})
        snaps = [O.snapshot(m) for m in (A, B, C)]
        try:
            R = f2(f1(A, B), C)
        except KeyError as e:
            return dict(name='(a%sb)%sc' % (n1, n2), keyerr=str(e)[:100], polys=[O.poly_of_model(m, spin) for m in (A, B, C)], ops=(n1, n2))
        return dict(name='(a%sb)%sc' % (n1, n2), keyerr=None, R=R, ops=(n1, n2), polys=[O.poly_of_model(m, spin) for m in (A, B, C)],
                    unchanged=[O.snapshot(m) for m in (A, B, C)] == snaps)

    def check(res):
        name = res['name']
        n1, n2 = res['ops']
        Ap, Bp, Cp = res['polys']
        if res['keyerr'] is not None:
            legit = False
            if tn in O.DEG2_TYPES:
                ab = [tuple(ka) + tuple(kb) for ka in Ap for kb in Bp] if n1 == '*' else [tuple(k) for k in list(Ap) + list(Bp)]
                legit = any(len(O.canon_key(k, spin)) > 2 for k in ab)
                if n2 == '*':
                    legit = legit or any(len(O.canon_key(k + tuple(kc), spin)) > 2 for k in ab for kc in Cp)
            return [Ob('KeyError only for a degree-2 type whose product has a term of degree > 2 [%s]' % name, legit, sig='KeyError in tree')]
        R = res['R']
        obs = [Ob('type [%s]' % name, type(R) is T, sig='type of tree'), Ob('operands unchanged [%s]' % name, res['unchanged'], sig='operand mutated in tree')]
        if type(R) is not T: return obs
        iss = structural(T, spin, R)
        obs.append(Ob('canonical keys [%s]' % name, not iss, info={'issues': [(i[0], repr(i[1])) for i in iss][:3]}, sig='canonical keys tree'))
        obs.append(Ob('no zero coefficient is stored [%s]' % name, z3.And([ctx.z(v) != 0 for v in R.values()] or [z3.BoolVal(True)]), sig='stored zero tree'))
        F = {'+': lambda x, y: x + y, '-': lambda x, y: x - y, '*': lambda x, y: x * y}
        bad = []
        for x in O.assigns(labs, spin):
            av, bv, cv = [Sym(ev({tuple(k): Sym(p) for k, p in P.items()}, x)) for P in (Ap, Bp, Cp)]
            d = to_poly(Sym(ev(R, x)) - F[n2](F[n1](av, bv), cv))
            if d: bad.append(ctx.z(d) != 0)
        obs.append(Ob('value identity on all assignments [%s]' % name, z3.Not(z3.Or(bad)) if bad else True, sig='value of tree'))
        return obs
    return run, check


def make_value(ctx, tn, nlab=3):
    """pubo_value/qubo_value/puso_value/quso_value and .value against the independent evaluator, dict and sequence assignments"""
    from qubovert.utils import pubo_value, qubo_value, puso_value, quso_value
    TY = O.types()
    T = TY[tn] if tn != 'dict_spin' else dict
    spin = O.is_spin_name(tn) if tn != 'dict_spin' else True
    if tn in ('dict', 'dict_spin'):
        labs = list(range(nlab))
        U = O.universe(labs, 2) + [(1, 0), (0, 0, 1), tuple(labs)]
    else:
        labs = list(range(nlab))       # integer labels so that sequences can be used for every type
        U = O.universe(labs, 2 if tn in O.DEG2_TYPES else 3)
    cs = {k: ctx.real_var('c%d' % i) for i, k in enumerate(U)}

    def run():
        M = T({k: cs[k] for k in U})
        out = []
        deg2 = all(len(set(k)) <= 2 for k in M) and all(len(k) <= 2 for k in M)
        for x in O.assigns(labs, spin):
            xs = [x[l] for l in labs]
            for form_name, form in (('dict', dict(x)), ('list', list(xs)), ('tuple', tuple(xs))):
                vals = {}
                if spin:
                    vals['puso_value'] = puso_value(form, M)
                    if deg2: vals['quso_value'] = quso_value(form, M)
                else:
                    vals['pubo_value'] = pubo_value(form, M)
                    if deg2: vals['qubo_value'] = qubo_value(form, M)
                if hasattr(M, 'value'):
                    vals['.value'] = M.value(form)
                out.append((tuple(xs), form_name, vals))
        return M, out

    def check(res):
        M, out = res
        obs = []
        for xs, form_name, vals in out:
            x = dict(zip(labs, xs))
            want = O.val_poly(M, x, spin)
            for fn, got in vals.items():
                d = padd(to_poly(got), want, -1)
                obs.append(Ob('%s(%s %s) equals direct evaluation' % (fn, form_name, xs), (ctx.z(d) == 0) if d else True, sig='%s on %s' % (fn, form_name)))
        return obs
    return run, check


def jobs(tier, seed):
    J = []
    def add(name, make, args, budget=300):
        J.append(dict(name=name, sig=name.split('/n')[0], module='vq.props.c05', make=make, args=args, budget_s=budget, max_cex=30))
    allT = O.BOOL_TYPES + O.SPIN_TYPES
    for tn in allT:
        for bk in ('same', 'dict', 'num'):
            add('binop/%s/%s' % (tn, bk), 'make_binop', dict(tn=tn, bk=bk), 300 if tier == 'quick' else 1800)
    if tier == 'quick':
        for tn in ['PUBO', 'PUSO', 'QUBO', 'QUSOMatrix']:
            add('tree/%s' % tn, 'make_tree', dict(tn=tn))
        pairs = [('PUBO', 'QUBO'), ('PCBO', 'PUBOMatrix'), ('PUSO', 'QUSOMatrix'), ('PCSO', 'QUSO'), ('PUBOMatrix', 'QUBOMatrix'), ('PUSOMatrix', 'QUSO')]
    else:
        for tn in allT:
            add('tree/%s' % tn, 'make_tree', dict(tn=tn), 1800)
            add('binop3/%s/same/n3' % tn, 'make_binop', dict(tn=tn, bk='same', nlab=3, ops=['a+b', 'a-b', 'a*b', 'b-a', 'a*=b', 'a-=b', 'a**2']), 2400)
        pairs = [(a, b) for fam in (O.BOOL_TYPES, O.SPIN_TYPES) for a in fam for b in fam if a != b]
    for tn in O.DEG2_TYPES + (['PUSO', 'PUBO'] if tier != 'quick' else []):
        add('binop/%s/same/quadprod' % tn, 'make_binop', dict(tn=tn, bk='same', nlab=3, shape='quadprod',
                                                                 ops=['a*b', 'b*a', 'a*=b', 'a**2', 'a*a', 'a*=a'] + ([] if tier == 'quick' else ['a**3'])), 300 if tier == 'quick' else 1800)
    for tn in (['PUBO', 'PUSO', 'QUBO', 'QUSOMatrix', 'PCBO'] if tier == 'quick' else allT):
        add('binop/%s/same/small/highpow' % tn, 'make_binop', dict(tn=tn, bk='same', shape='small', ops=['a**4', 'a**5', 'a**6', 'a**=6']), 300 if tier == 'quick' else 1800)
    for a, b in pairs:
        # the other operand must use labels the first type accepts
        add('binop/%s/other=%s' % (a, b), 'make_binop', dict(tn=a, bk='other', ob=b, ops=['a+b', 'a-b', 'a*b', 'b+a', 'b-a', 'b*a', 'a+=b', 'a-=b', 'a*=b']),
            300 if tier == 'quick' else 1800)
    for tn in allT + ['dict', 'dict_spin']:
        add('value/%s' % tn, 'make_value', dict(tn=tn if tn != 'dict_spin' else 'dict_spin'), 300)
    return J


def post(results, tier, seed):
    """label-symbolic CrossHair lemmas on the real helper functions (auxiliary layer, see DESIGN.md 2.3)"""
    from ..lemmas.run import as_extra
    return as_extra('keys', ['lemma_pubomatrix_squash', 'lemma_pusomatrix_squash', 'lemma_pubo_squash', 'lemma_puso_squash'], 'C05', timeout=20 if tier == 'quick' else 60)
