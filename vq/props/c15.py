"""C15 -- approximate extrema always enclose the true extrema; anneal_temperature_range is ordered."""
import itertools

import z3

from ..core import Ob
from ..symx import Sym, to_poly, padd
from .. import oracle as O

LEVEL = 'model_checking'
ASSUMPTIONS = [
    'exact rational arithmetic (the float logarithms in anneal_temperature_range are taken of concrete grid probabilities and enter as exact dyadic constants)',
    'coefficients are unbounded symbolic reals, zero allowed; raw dicts include unsorted and repeated-label keys',
    'flip probabilities are drawn from a fixed grid (they pass through math.log, which needs concrete floats)',
]
OUTSIDE = ['more than 3 labels', 'probabilities off the grid', 'float rounding']
BOUNDS = {'quick': {'labels': 3, 'universe': 'dense degree<=2 plus the 3-body term (degree-2 functions: dense degree<=2)', 'prob_grid': '7 admissible + 4 inadmissible pairs'},
          'thorough': {'labels': 3, 'universe': 'dense'}}

GRID_OK = [(0.5, 0.01), (0.5, 0.5), (0.9, 0.0), (0.0, 0.0), (0.3, 0.1), (0.999, 0.001), (0.25, 0.25)]
GRID_BAD = [(0.1, 0.5), (1.0, 0.5), (-0.1, -0.2), (0.5, 1.0)]


def make_extrema(ctx, fn, src, dense=False, nlab=3):
    import qubovert.utils as qu
    TY = O.types()
    T = TY[src]
    spin = fn in ('approximate_puso_extrema', 'approximate_quso_extrema')
    deg2 = fn in ('approximate_qubo_extrema', 'approximate_quso_extrema') or src in O.DEG2_TYPES
    labs = list(range(nlab)) if src in O.MATRIX_TYPES else O.LABEL_POOL[:nlab]
    if nlab == 4:
        U = O.universe(labs, 1) + [(labs[0], labs[1]), (labs[0], labs[2]), (labs[2], labs[3])] + ([] if deg2 else [(labs[0], labs[1], labs[3]), tuple(labs)])
    else:
        U = O.universe(labs, 2) if deg2 else (O.universe(labs, 3) if dense else O.universe(labs, 1) + [(labs[0], labs[1]), tuple(labs)])
    if src == 'dict':
        U = U + [(labs[1], labs[0]), (labs[0], labs[0], labs[1])] if not deg2 else U + [(labs[1], labs[0]), (labs[0], labs[0])]
    cs = {k: ctx.real_var('c%d' % i) for i, k in enumerate(U)}
    f = getattr(qu, fn)

    def run():
        M = T({k: cs[k] for k in U})
        before = O.snapshot(M)
        lo, hi = f(M)
        return M, lo, hi, before == O.snapshot(M)

    def check(res):
        M, lo, hi, unchanged = res
        obs = [Ob('argument unchanged', unchanged)]
        zl, zh = ctx.z(lo), ctx.z(hi)
        conds = []
        for a in O.assigns(labs, spin):
            v = ctx.z(O.val_poly(M, a, spin))
            conds += [zl <= v, v <= zh]
        obs.append(Ob('lo <= M(x) <= hi on every assignment', z3.And(conds)))
        if all(len(O.canon_key(k, spin)) == 0 for k in M):
            c = ctx.z(O.val_poly(M, {l: 1 for l in labs}, spin))
            obs.append(Ob('constant model: lo = hi = the constant', z3.And(zl == c, zh == c)))
        obs.append(Ob('twin: bounds are not tight somewhere', z3.Or([zl < ctx.z(O.val_poly(M, a, spin)) for a in O.assigns(labs, spin)]), expect_sat=True))
        return obs
    return run, check


def make_temprange(ctx, src, stale=False):
    from qubovert.sim import anneal_temperature_range
    TY = O.types()
    T = dict if src == 'dict_spin' else TY[src]
    spin = O.is_spin_name(src) if src != 'dict_spin' else True
    labs = list(range(3)) if src in O.MATRIX_TYPES or src.startswith('dict') else O.LABEL_POOL[:3]
    # min/max over |coefficients| forks on every ordering, and boolean inputs are first converted to spins
    # (sums of inputs): keep the universes small
    if spin:
        U = [(), (labs[0],), (labs[1],), (labs[0], labs[1])] if src in O.DEG2_TYPES else [(), (labs[0],), (labs[1], labs[2]), tuple(labs)]
    else:
        U = [(), (labs[0],), (labs[0], labs[1])]
    cs = {k: ctx.real_var('c%d' % i) for i, k in enumerate(U)}
    sel = ctx.int_var('g', 0, len(GRID_OK) + len(GRID_BAD) - 1)

    def run():
        g = int(sel)
        M = T({k: cs[k] for k in U})
        if stale and hasattr(M, 'refresh'):
            M[(labs[0], labs[2])] += 1
            M[(labs[0], labs[2])] -= 1
        p0, pf = (GRID_OK + GRID_BAD)[g]
        novars = not {i for k in M for i in k}
        try:
            T0, Tf = anneal_temperature_range(M, p0, pf, spin)
        except ValueError as e:
            return g, ('ValueError', str(e)[:80]), novars
        return g, (T0, Tf), novars

    def check(res):
        g, out, novars = res
        p = (GRID_OK + GRID_BAD)[g]
        if g >= len(GRID_OK):
            return [Ob('inadmissible probabilities %s raise ValueError' % (p,), out[0] == 'ValueError', sig='inadmissible probabilities')]
        if out[0] == 'ValueError':
            return [Ob('admissible probabilities %s do not raise' % (p,), False, info={'msg': out[1], 'no_variables': novars}, sig='ValueError on admissible input')]
        T0, Tf = out
        z0, zf = ctx.z(T0), ctx.z(Tf)
        obs = [Ob('T0 >= Tf >= 0 for probabilities %s' % (p,), z3.And(z0 >= zf, zf >= 0), sig='T0 >= Tf >= 0')]
        if novars:
            obs.append(Ob('(0, 0) for a model without variables %s' % (p,), z3.And(z0 == 0, zf == 0), sig='(0,0) without variables'))
        return obs
    return run, check


def jobs(tier, seed):
    J = []
    def add(name, make, args):
        J.append(dict(name=name, sig=name, module='vq.props.c15', make=make, args=args, budget_s=300 if tier == 'quick' else 1800))
    for fn, fam in [('approximate_pubo_extrema', O.BOOL_TYPES), ('approximate_qubo_extrema', ['QUBO', 'QUBOMatrix']),
                    ('approximate_puso_extrema', O.SPIN_TYPES), ('approximate_quso_extrema', ['QUSO', 'QUSOMatrix'])]:
        for src in fam + ['dict']:
            add('extrema/%s/%s' % (fn, src), 'make_extrema', dict(fn=fn, src=src, dense=(tier != 'quick')))
            if tier != 'quick':
                add('extrema/%s/%s/n4' % (fn, src), 'make_extrema', dict(fn=fn, src=src, nlab=4))
    for src in O.BOOL_TYPES + O.SPIN_TYPES + ['dict', 'dict_spin']:
        add('temprange/%s' % src, 'make_temprange', dict(src=src))
    for src in ['PUBO', 'PUSO', 'QUSO', 'PCBO']:
        add('temprange/%s/stale' % src, 'make_temprange', dict(src=src, stale=True))
    return J
