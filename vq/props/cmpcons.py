"""Shared harness factory for C02 (PCBO) and C03 (PCSO): comparison constraints as exact penalties."""
import itertools
import warnings

import z3

from ..core import Ob
from ..symx import Sym, to_poly, padd
from .. import oracle as O

RELOP = {'eq': lambda p: p == 0, 'ne': lambda p: p != 0, 'lt': lambda p: p < 0,
         'le': lambda p: p <= 0, 'gt': lambda p: p > 0, 'ge': lambda p: p >= 0}


def _labels(n, spin):
    return O.LABEL_POOL[:n]


def _universe(labels, shape):
    if shape == 'dense':
        return O.universe(labels, len(labels))
    if shape == 'lin+prod':      # offset, linear terms, one product of all labels
        return O.universe(labels, 1) + [tuple(labels)]
    if shape == 'lin+pair':      # offset, linear terms, product of first two
        return O.universe(labels, 1) + [tuple(labels[:2])]
    if shape == 'linear':
        return O.universe(labels, 1)
    raise ValueError(shape)


def penalty_obligations(ctx, G, labels, anc, Pd, rel, spin, warned, lamz, tag=''):
    """G = F/lam (dict key->coef).  obligations: F>=0; min_a F=0 iff P R 0; F>=lam otherwise"""
    obs = []
    vals = (1, -1) if spin else (0, 1)
    any_pos = []
    for x in O.assigns(labels, spin):
        Pv = ctx.z(O.val_poly(Pd, x, spin))
        Fs = []
        for as_ in itertools.product(vals, repeat=len(anc)):
            a = dict(zip(anc, as_)); a.update(x)
            Fs.append(ctx.z(O.val_poly(G, a, spin)))
        xs = tuple(x[l] for l in labels)
        obs.append(Ob('%sF>=0 @x=%s' % (tag, xs), z3.And([f >= 0 for f in Fs]), sig=tag + 'F>=0'))
        if not warned:
            obs.append(Ob('%ssatisfied => min_a F = 0 @x=%s' % (tag, xs), z3.Implies(RELOP[rel](Pv), z3.Or([f == 0 for f in Fs])),
                          sig=tag + 'satisfied => min_a F = 0'))
            obs.append(Ob('%sviolated => F >= lam for all a @x=%s' % (tag, xs), z3.Implies(z3.Not(RELOP[rel](Pv)), z3.And([f >= lamz for f in Fs])),
                          sig=tag + 'violated => F >= lam'))
        any_pos += [f > 0 for f in Fs]
    obs.append(Ob('twin: some assignment is penalised', z3.Or(any_pos) if any_pos else False, expect_sat=True))
    return obs


def make_single(ctx, rel, B, log, bmode, n, shape, spin=False, bb=None, Bbig=None):
    """one constraint P R 0 on an empty PCBO/PCSO; P dense over the universe with integer coefficients in [-B,B]"""
    import qubovert as qv
    labels = _labels(n, spin)
    U = _universe(labels, shape)
    # Bbig: a wider range for the linear coefficient of the last label (special forms such as z == x AND y need a 2 there on spins)
    cs = {k: ctx.int_var('c' + ''.join(str(labels.index(i)) for i in k), -(Bbig if (Bbig and k == (labels[-1],)) else B), (Bbig if (Bbig and k == (labels[-1],)) else B)) for k in U}
    lam = ctx.real_var('lam', 0, lo_strict=True)
    symbolic = ctx.concrete is None
    lam_idx = ctx.byname.get('lam') if symbolic else None
    Pd = {k: cs[k] for k in U}
    lo = hi = None
    bb = bb if bb is not None else 3 * B * len(U)
    if bmode in ('lo', 'both'): lo = ctx.int_var('lo', -bb, bb)
    if bmode in ('hi', 'both'): hi = ctx.int_var('hi', -bb, bb)
    for x in O.assigns(labels, spin):
        pv = ctx.z(O.val_poly(Pd, x, spin))
        if lo is not None: ctx.add_base(ctx.z(lo) <= pv)
        if hi is not None: ctx.add_base(pv <= ctx.z(hi))
    T = qv.PCSO if spin else qv.PCBO

    def run():
        with warnings.catch_warnings(record=True) as w:
            warnings.simplefilter('always')
            H = T()
            arg = dict(Pd)
            kw = {} if rel == 'eq' else {'log_trick': log}
            if bmode != 'none': kw['bounds'] = (lo, hi)
            ret = getattr(H, 'add_constraint_%s_zero' % rel)(arg, lam=lam, **kw)
        warned = any('cannot be satisfied' in str(x.message) for x in w)
        return H, warned, arg, ret is H, H.constraints, H.num_ancillas

    def check(res):
        H, warned, arg, ret_self, cons, num_anc = res
        obs = []
        obs.append(Ob('returns self', bool(ret_self)))
        obs.append(Ob('argument dict unchanged', O.snapshot(arg) == O.snapshot(Pd)))
        hv = set(H.variables)
        anc = sorted((v for v in hv if isinstance(v, str) and v.startswith('__a')), key=lambda s: int(s[3:]))
        obs.append(Ob('variables are P\'s variables plus fresh __a names', (hv - set(anc)) <= set(labels),
                      info={'variables': sorted(map(repr, hv))}))
        # a name may be skipped (an ancilla whose terms all cancelled, e.g. the sign bit of `0 != 0` with user bounds), so contiguity is not demanded
        obs.append(Ob('ancilla names are __a<i> with i < num_ancillas', all(a[3:].isdigit() and int(a[3:]) < num_anc for a in anc), info={'anc': anc, 'num_ancillas': num_anc}))
        obs.append(Ob('num_ancillas covers the ancillas present', num_anc >= len(anc), info={'num_ancillas': num_anc, 'anc': anc}))
        if len(anc) > 7:
            return obs + [Ob('OUTSIDE-BOUND: more ancillas than the harness expands', True, info={'anc': anc})]
        # recorded constraint: exactly one, under the outermost relation, equal to P
        ok_struct = list(cons) == [rel] and len(cons[rel]) == 1
        obs.append(Ob('exactly the outermost relation is recorded once', ok_struct, info={'constraints': {k: len(v) for k, v in cons.items()}}))
        if ok_struct:
            rec = cons[rel][0]
            pr, pp = O.poly_of_model(rec, spin), O.poly_of_model(Pd, spin)
            same = [ctx.z(pr.get(k, {})) == ctx.z(pp.get(k, {})) for k in sorted(set(pr) | set(pp), key=repr)]
            obs.append(Ob('recorded constraint equals P', z3.And(same) if same else True))
        # homogeneity in lam  ->  G = F / lam
        G = {}
        lamz = z3.RealVal(1)
        if symbolic:
            for k, v in H.items():
                g = O.div_by_var(to_poly(v), lam_idx)
                if g is None:
                    G = None; break
                G[k] = Sym(g)
            if G is None:
                # not lam times a lam-free polynomial: ask the semantic queries of F itself (non-linear in lam)
                G = dict(H); lamz = ctx.z(lam)
        else:
            from fractions import Fraction
            G = {k: Fraction(v) / lam for k, v in H.items()}
        obs += penalty_obligations(ctx, G, labels, anc, Pd, rel, spin, warned, lamz)
        # is_solution_valid(x)  <=>  P(x) R 0      (nested exploration of the real method)
        for x in O.assigns(labels, spin):
            xs = tuple(x[l] for l in labels)
            sub, complete = ctx.sub(lambda c: H.is_solution_valid(dict(x)), ctx.pc_of_current)
            Pv = ctx.z(O.val_poly(Pd, x, spin))
            conj = [z3.Implies(z3.And(pc2) if pc2 else z3.BoolVal(True), RELOP[rel](Pv) == z3.BoolVal(bool(r))) for r, pc2 in sub]
            obs.append(Ob('is_solution_valid agrees with P R 0 @x=%s' % (xs,), z3.And(conj) if conj else True, sig='is_solution_valid agrees'))
            if not complete:
                obs.append(Ob('nested exploration complete', z3.BoolVal(True)))
        return obs
    return run, check


CONCRETE_MENU = {
    # name: (relation, P, log_trick)   -- over labels 'a', 0 and a third label 'b'
    'le_sum': ('le', {('a',): 1, (0,): 1, ('b',): 1, (): -2}, True),
    'le_sum_nolog': ('le', {('a',): 1, (0,): 1, ('b',): 1, (): -2}, False),
    'ge_weighted': ('ge', {('a',): 2, (0,): 1, ('b',): -1, (): -1}, True),
    'lt_pair': ('lt', {('a', 0): 2, ('b',): 1, (): -3}, True),
    'gt_lin': ('gt', {('a',): 1, ('b',): 2, (): -1}, False),
    'eq_diff': ('eq', {('a',): 1, ('b',): -1}, True),
    'ne_diff': ('ne', {(0,): 1, ('b',): -1}, True),
    'ne_nolog': ('ne', {(0,): 1, ('b',): -2, (): 1}, False),
    # always satisfied (boolean and spin): nothing to penalise, but the record must stay consistent
    'lt_trivial': ('lt', {('b',): -1, (): -2}, True),
    'gt_trivial': ('gt', {('b',): 1, (): 2}, False),
    'le_trivial': ('le', {('b',): 1, (0,): 1, (): -2}, True),
    'ge_trivial': ('ge', {('b',): 1, (): 1}, True),
}


def make_sequence(ctx, rel, B, log, seq, spin=False):
    """first constraint symbolic (2 labels, dense), then constraints from the concrete menu on the same model"""
    import qubovert as qv
    labels = ['a', 0]
    all_labels = ['a', 0, 'b']
    U = O.universe(labels, 2)
    cs = {k: ctx.int_var('c' + ''.join(str(labels.index(i)) for i in k), -B, B) for k in U}
    lam = ctx.real_var('lam', 0, lo_strict=True)
    symbolic = ctx.concrete is None
    lam_idx = ctx.byname.get('lam') if symbolic else None
    Pd = {k: cs[k] for k in U}
    T = qv.PCSO if spin else qv.PCBO
    steps = [(rel, Pd, log)] + [CONCRETE_MENU[s] for s in seq]

    def run():
        H = T()
        added = []
        warned = []
        for r, P, lg in steps:
            before = set(H.variables)
            with warnings.catch_warnings(record=True) as w:
                warnings.simplefilter('always')
                kw = {} if r == 'eq' else {'log_trick': lg}
                getattr(H, 'add_constraint_%s_zero' % r)(dict(P), lam=lam, **kw)
            warned.append(any('cannot be satisfied' in str(x.message) for x in w))
            new = set(H.variables) - before
            added.append((before, new))
        return H, added, warned, H.num_ancillas

    def check(res):
        H, added, warned, num_anc = res
        obs = []
        seen_anc = set()
        for i, (before, new) in enumerate(added):
            newanc = {v for v in new if isinstance(v, str) and v.startswith('__a')}
            obs.append(Ob('step %d introduces only its own variables and fresh __a names' % i, (new - newanc) <= set(all_labels)))
            obs.append(Ob('step %d ancilla names unused before' % i, not (newanc & seen_anc) and not (newanc & before), info={'new': sorted(newanc)},
                          sig='ancilla names never reused'))
            seen_anc |= newanc
        anc = sorted(seen_anc, key=lambda s: int(s[3:]))
        present = {v for v in H.variables if isinstance(v, str) and v.startswith('__a')}
        obs.append(Ob('num_ancillas covers the ancillas present', num_anc >= len(present), info={'n': num_anc, 'present': sorted(present)}))
        obs.append(Ob('all ancillas present were introduced by some step', present <= seen_anc))
        if len(anc) > 8:
            return obs + [Ob('OUTSIDE-BOUND: more ancillas than the harness expands', True, info={'anc': anc})]
        if any(warned):
            return obs
        G = {}
        lamz = z3.RealVal(1)
        if symbolic:
            for k, v in H.items():
                g = O.div_by_var(to_poly(v), lam_idx)
                if g is None:
                    G = None; break
                G[k] = Sym(g)
            if G is None:
                G = dict(H); lamz = ctx.z(lam)
        else:
            from fractions import Fraction
            G = {k: Fraction(v) / lam for k, v in H.items()}
        vals = (1, -1) if spin else (0, 1)
        for x in O.assigns(all_labels, spin):
            holds = z3.And([RELOP[r](ctx.z(O.val_poly(P, x, spin))) for r, P, lg in steps])
            Fs = []
            for as_ in itertools.product(vals, repeat=len(anc)):
                a = dict(zip(anc, as_)); a.update(x)
                Fs.append(ctx.z(O.val_poly(G, a, spin)))
            xs = tuple(x[l] for l in all_labels)
            obs.append(Ob('total: all hold => min_a F = 0 @x=%s' % (xs,), z3.Implies(holds, z3.And(z3.Or([f == 0 for f in Fs]), z3.And([f >= 0 for f in Fs]))),
                          sig='total: all hold => min_a F = 0'))
            obs.append(Ob('total: some violated => F >= lam @x=%s' % (xs,), z3.Implies(z3.Not(holds), z3.And([f >= lamz for f in Fs])),
                          sig='total: some violated => F >= lam'))
            sub, complete = ctx.sub(lambda c: H.is_solution_valid(dict(x)), ctx.pc_of_current)
            conj = [z3.Implies(z3.And(pc2) if pc2 else z3.BoolVal(True), holds == z3.BoolVal(bool(r))) for r, pc2 in sub]
            obs.append(Ob('is_solution_valid agrees with all recorded constraints @x=%s' % (xs,), z3.And(conj) if conj else True,
                          sig='is_solution_valid agrees (sequence)'))
        return obs
    return run, check
