"""C09 -- brute-force solvers return the exact minimum and exactly the minimisers."""
import itertools

import z3

from ..core import Ob
from ..symx import Sym, to_poly, padd
from .. import oracle as O

LEVEL = 'model_checking'
ASSUMPTIONS = [
    'exact rational arithmetic',
    'coefficients are unbounded symbolic reals (all_solutions=False) or symbolic integers in [-B,B] (all_solutions=True: results are hashed into a dict, which realises them)',
    'model kind, labels, monomial universe and the validity predicate are enumerated (predicates: always, never, even parity, first two variables differ)',
    'the model\'s variables are: for a dict the labels occurring in its keys, for a model object its reported `variables`',
    'a constant model with a predicate that rejects the empty assignment is not judged (the statement\'s two clauses disagree there)',
]
OUTSIDE = ['more than 3 variables', 'float rounding', 'predicates with side effects']
BOUNDS = {'quick': {'n': '2 (dense) and 3 (4-5 monomials); raw dicts also with unsorted keys and repeated labels', 'B (all_solutions)': 1}, 'thorough': {'n': '3 dense', 'B': 2}}

VALID = {
    'always': lambda x: True,
    'never': lambda x: False,
    'even': lambda x: sum(1 for v in x.values() if v in (1,)) % 2 == 0,
    'differ': lambda x: len(x) < 2 or list(x.values())[0] != list(x.values())[1],
    'first_set': None,
    'sees_model': lambda x: True,
}


def make_bf(ctx, src, fn, n, U, allsol, valid, B=0, method=False, stale=False, big=0):
    import qubovert.utils as qu
    TY = O.types()
    T = TY[src]
    spin = fn in ('solve_puso_bruteforce', 'solve_quso_bruteforce')
    labs = list(range(n)) if src in O.MATRIX_TYPES else O.LABEL_POOL[:n]
    keys = [tuple(labs[i] for i in k) for k in U]
    cs = {k: (ctx.int_var('c%d' % i, -B, B) if B else ctx.real_var('c%d' % i)) for i, k in enumerate(keys)}
    if big and () in cs:
        cs[()] = cs[()] + big          # a large constant next to small coefficients (relative differences ~1e-10)
    vfn = VALID[valid]
    if valid == 'first_set':
        vfn = lambda x: (x[labs[0]] == (-1 if spin else 1)) if labs[0] in x else True     # noqa  (not symmetric under flipping every variable)
    if valid == 'differ':
        vfn = lambda x: (x[labs[0]] != x[labs[1]]) if (labs[0] in x and labs[1] in x) else True     # noqa
    f = getattr(qu, fn)

    def run():
        D = T({k: cs[k] for k in keys})
        if stale and src not in ('dict',) and src not in O.MATRIX_TYPES:
            # stale bookkeeping: a label is assigned zero / a term is cancelled (documented edits)
            D[(labs[-1], 'zz')] = 0
            D[('yy',)] += 1
            D[('yy',)] -= 1
        before = O.snapshot(D)
        mvars = set(D.variables) if hasattr(D, 'variables') else {i for k in D for i in k}
        if all(k == () for k in D):
            mvars = set()       # constant model: the statement promises the empty assignment
        import copy as _copy
        had_offset = () in D
        pred = vfn
        if valid == 'sees_model':
            # a predicate that looks at the model while it is being solved: it must see the model it was given (offset included)
            pred = lambda x: (() in D) == had_offset      # noqa
        if method:
            res = D.solve_bruteforce(allsol)
            res = (None, res)
        else:
            res = f(D, allsol, pred)
        first = _copy.deepcopy(res)
        # history: the caller edits the returned solution(s) in place, then solves the same model again
        sol = res[1]
        try:
            if isinstance(sol, dict): sol['__caller_edit__'] = 7
            elif isinstance(sol, list):
                for x in sol:
                    if isinstance(x, dict): x['__caller_edit__'] = 7
                sol.append({'__caller_edit__': 7})
        except Exception:       # noqa
            pass
        again = (None, D.solve_bruteforce(allsol)) if method else f(D, allsol, pred)
        a0, a1 = first, again
        eq_again = (type(a0[1]) is type(a1[1])) and (a0[1] == a1[1]) and ((a0[0] is None) == (a1[0] is None))
        return D, before, O.snapshot(D), mvars, first, bool(eq_again)

    def check(res):
        D, before, after, mvars, (obj, sol), eq_again = res
        obs = [Ob('argument unchanged', before == after),
               Ob('solving the same model again after the caller edited the first result gives the same result', eq_again, sig='second call polluted by edits of the first result')]
        mv = sorted(mvars, key=repr)
        allx = list(O.assigns(mv, spin))
        vx = [x for x in allx if (True if method else vfn(x))]
        vals = {tuple(x[l] for l in mv): ctx.z(O.val_poly(D, x, spin)) for x in allx}
        key = lambda x: tuple(x[l] for l in mv)
        const = not mv
        if const and not method and not vfn({}):
            return obs + [Ob('constant model with rejecting predicate: not judged', True)]
        if not vx:
            obs.append(Ob('objective is None when nothing is valid', obj is None, info={'obj': repr(obj)}))
            return obs
        sols = sol if allsol else [sol]
        obs.append(Ob('solutions assign exactly the model\'s variables', all(isinstance(s, dict) and set(s) == set(mv) for s in sols),
                      info={'vars': list(map(repr, mv)), 'sol_keys': [sorted(map(repr, s)) for s in sols][:3]}))
        if not all(isinstance(s, dict) and set(s) == set(mv) for s in sols):
            return obs
        obs.append(Ob('returned solutions are valid', all((True if method else vfn(s)) for s in sols)))
        okvals = all(v in ((1, -1) if spin else (0, 1)) for s in sols for v in s.values())
        obs.append(Ob('solution values are in the variable domain', okvals))
        if not okvals: return obs
        if method:
            # the methods return only the solution(s); the objective is the value at the solution
            zo = vals[key(sols[0])] if sols else None
        else:
            obs.append(Ob('objective is a number when something is valid', obj is not None))
            if obj is None: return obs
            zo = ctx.z(obj)
        obs.append(Ob('objective <= value of every valid assignment', z3.And([zo <= vals[key(x)] for x in vx])))
        obs.append(Ob('objective is attained by the returned solution(s)', z3.And([zo == vals[key(s)] for s in sols])))
        if allsol:
            ks = [key(s) for s in sols]
            obs.append(Ob('every minimiser returned once', len(ks) == len(set(ks)), info={'n': len(ks)}))
            obs.append(Ob('all_solutions returns every valid minimiser and nothing else',
                          z3.And([(vals[key(x)] == zo) == z3.BoolVal(key(x) in set(ks)) for x in vx])))
        if const:
            obs.append(Ob('constant model: empty assignment', sols == [{}]))
        obs.append(Ob('twin: objective is strictly below some valid value', z3.Or([zo < vals[key(x)] for x in vx]), expect_sat=True))
        return obs
    return run, check


def jobs(tier, seed):
    J = []
    def add(src, fn, n, U, allsol, valid, B=0, method=False, stale=False, budget=300, big=0):
        name = '%s/%s/n%d/U%d/all=%d/valid=%s%s%s%s' % (src, 'method' if method else fn, n, len(U), allsol, valid, '/B%d' % B if B else '', '/stale' if stale else '', '/big' if big else '')
        J.append(dict(name=name, sig=name, module='vq.props.c09', make='make_bf',
                      args=dict(src=src, fn=fn, n=n, U=[list(k) for k in U], allsol=allsol, valid=valid, B=B, method=method, stale=stale, big=big),
                      budget_s=budget if tier == 'quick' else 1800))
    d2 = [k for d in range(3) for k in itertools.combinations(range(2), d)]
    d3q = [(), (0,), (1,), (2,), (0, 1), (1, 2)]
    d3p = [(), (0,), (1, 2), (0, 1, 2)]
    fam = {'solve_pubo_bruteforce': ['dict', 'PUBO', 'PCBO', 'PUBOMatrix', 'QUBO'], 'solve_qubo_bruteforce': ['dict', 'QUBO', 'QUBOMatrix'],
           'solve_puso_bruteforce': ['dict', 'PUSO', 'PCSO', 'PUSOMatrix', 'QUSO'], 'solve_quso_bruteforce': ['dict', 'QUSO', 'QUSOMatrix']}
    for fn, srcs in fam.items():
        deg3 = fn in ('solve_pubo_bruteforce', 'solve_puso_bruteforce')
        for src in srcs:
            for valid in (['always', 'never', 'even', 'differ'] if src in ('dict', srcs[1]) else ['always', 'differ']):
                add(src, fn, 2, d2, False, valid)
            U3 = d3p if (deg3 and src not in O.DEG2_TYPES) else d3q
            add(src, fn, 3, U3 if tier == 'quick' else ([k for d in range(4 if (deg3 and src not in O.DEG2_TYPES) else 3) for k in itertools.combinations(range(3), d)]),
                False, 'always')
            add(src, fn, 2, d2, True, 'always', B=1 if tier == 'quick' else 2)
            if src in ('dict', srcs[1]):
                add(src, fn, 2, d2, True, 'always', B=1, big=10 ** 10)
                add(src, fn, 2, d2, False, 'first_set')
                add(src, fn, 2, d2, False, 'sees_model')
                add(src, fn, 2, d2, True, 'sees_model', B=1)
                add(src, fn, 3, [(0, 1), (1, 2), (0, 2)] if not deg3 else [(0, 1), (1, 2), (0, 1, 2, 0)][:2] + [(0, 2)], False, 'first_set')
            add(src, fn, 2, d2, True, 'even', B=1)
            if src == 'dict':
                # raw dict keys: unsorted and with repeated labels (product semantics)
                Uraw = [(0, 0, 1), (1,), (1, 0), ()] if deg3 else [(0, 0), (1, 0), (1,), ()]
                add(src, fn, 2, Uraw, False, 'always')
                add(src, fn, 2, Uraw, True, 'always', B=1)
                if deg3 and tier != 'quick':
                    add(src, fn, 3, [(0, 1, 0, 2), (2, 1), (1, 1, 1), (0,)], False, 'differ')
            if tier != 'quick' or src in ('dict', srcs[1]):
                add(src, fn, 3, U3[1:], True, 'differ', B=1)
            if tier != 'quick':
                U4 = [(), (0,), (3,), (0, 1), (1, 2), (2, 3)] + ([(0, 1, 3)] if (deg3 and src not in O.DEG2_TYPES) else [(0, 3)])
                add(src, fn, 4, U4, False, 'always')
                add(src, fn, 4, U4, False, 'first_set')
                add(src, fn, 3, U3, True, 'even', B=1)
            if src != 'dict':
                add(src, fn, 2, d2, False, 'always', method=True)
                add(src, fn, 2, d2, True, 'always', B=1, method=True)
            if src not in ('dict',) and src not in O.MATRIX_TYPES:
                add(src, fn, 2, d2, True, 'always', B=1, stale=True)
                add(src, fn, 2, d2, False, 'differ', stale=True)
    return J
