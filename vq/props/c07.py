"""C07 -- sat expression builders compute their truth functions."""
import itertools
import warnings

import z3

from ..core import Ob
from ..symx import Sym, to_poly, padd
from .. import oracle as O
from .c06 import truth, GATES

LEVEL = 'model_checking'
ASSUMPTIONS = [
    'exact rational arithmetic',
    'expression trees are enumerated: root gate and shape per job, inner gates chosen by realised bounded solver integers',
    'leaves: labels of mixed types (repeats allowed), boolean models of the five boolean types, and solver-constrained {0,1}-valued integer polynomials over two labels (coefficients in [-2,2], all of them)',
    'KeyError is accepted only when an operand is a degree-2 model type and the expression needs degree > 2 (documented)',
]
OUTSIDE = ['depth > 3', 'arity > 3', 'operands that are not {0,1}-valued']
BOUNDS = {'quick': {'depth': 2, 'arity': '<=3 at the root, <=2 inside', 'leaves': ['labels', 'polynomial', 'models']},
          'thorough': {'depth': 3, 'arity': '<=3'}}

# shapes: tuple of children; child = 'L' leaf | ('G', n) inner gate with n leaf children | ('GG',) inner gate over two inner gates (depth 3)
SHAPES_Q = [('L',), ('L', 'L'), ('L', 'L', 'L'), (('G', 1),), (('G', 2),), (('G', 2), 'L'), ('L', ('G', 2)), (('G', 2), ('G', 1)), (('G', 2), ('G', 2)),
            (('G', 1), 'L', 'L'), (('G', 3),)]
SHAPES_T = SHAPES_Q + [(('G', 2), ('G', 2), 'L'), (('G', 3), ('G', 2)), (('GG',),), (('GG',), 'L'), (('G', 2), ('GG',))]


def make_tree(ctx, root, shape, leafmode, nshape=None):
    import qubovert as qv
    from qubovert import sat
    from qubovert.utils import QUBOMatrix, PUBOMatrix
    shape = tuple(tuple(c) if isinstance(c, list) else c for c in shape)
    LAB = ['a', 0, (1, 't'), 'a', 'b', 0, 7, 'b', 'a', 0, 'b', 7]       # leaf labels in order of use (repeats on purpose)
    if leafmode == 'models_int':
        LAB = [0, 1, 2, 0, 1, 2, 0, 1, 2, 0, 1, 2]
    if leafmode == 'labels_mixed':
        LAB = [2.5, 1, 2.5, 'a', 1, 2.5, 0.5, 'a', 1, 2.5, 1, 'a']       # comparable labels of different types (float > int given first)
    if leafmode == 'labels_rep':
        LAB = ['a', 'a', 0, 0, 'a', 'a', 'a', 0, 'a', 0, 0, 'a']        # the same label several times inside one gate
    # count inner gates
    ninner = 0
    for c in shape:
        if c == 'L': continue
        ninner += 3 if c[0] == 'GG' else 1
    sel = [ctx.int_var('g%d' % i, 0, 7) for i in range(ninner)]
    cs = None
    if leafmode == 'poly':
        U = O.universe(['a', 0], 2)
        cs = {k: ctx.int_var('c%d' % i, -2, 2) for i, k in enumerate(U)}
        for a in O.assigns(['a', 0]):
            v = ctx.z(O.bool_poly(cs, a))
            ctx.add_base(z3.Or(v == 0, v == 1))

    def run():
        li = iter(range(100))
        gi = iter(sel)
        used_labels = []
        snaps = []

        def leaf():
            nonlocal li
            i = next(li)
            l = LAB[i % len(LAB)]
            if leafmode == 'poly' and i == 0:
                P = {k: int(v) for k, v in cs.items()}
                snaps.append((P, O.snapshot(P)))
                used_labels.extend(['a', 0])
                return ('poly', P), P
            used_labels.append(l)
            if leafmode.startswith('models') and i % 2 == 0:
                T = [qv.QUBO, qv.PUBO, qv.PCBO, QUBOMatrix, PUBOMatrix][(i // 2) % 5] if leafmode == 'models_int' else [qv.QUBO, qv.PUBO, qv.PCBO][(i // 2) % 3]
                M = T({(l,): 1})
                snaps.append((M, (O.snapshot(M), O.book(M))))
                return ('label', l), M
            return ('label', l), l

        def build(c):
            if c == 'L':
                return leaf()
            if c[0] == 'G':
                nonlocal gi
                g = GATES[int(next(gi))]
                kids = [leaf() for _ in range(1 if g in ('NOT', 'BUFFER') else c[1])]
                return ('gate', g, [k[0] for k in kids]), getattr(sat, g)(*[k[1] for k in kids])
            if c[0] == 'GG':
                g = GATES[int(next(gi))]
                kids = [build(('G', 2)) for _ in range(1 if g in ('NOT', 'BUFFER') else 2)]
                return ('gate', g, [k[0] for k in kids]), getattr(sat, g)(*[k[1] for k in kids])
        def whole():
            kids = [build(c) for c in shape]
            if root in ('NOT', 'BUFFER'):
                kids = kids[:1]
            return kids, getattr(sat, root)(*[k[1] for k in kids])
        try:
            kids, R = whole()
        except KeyError as e:
            return ('keyerror', str(e)[:100], leafmode)
        tree = ('gate', root, [k[0] for k in kids])
        unchanged = all(((O.snapshot(o), O.book(o)) if hasattr(o, 'variables') else O.snapshot(o)) == s for o, s in snaps)
        labels = sorted(set(used_labels), key=repr)
        first = {k: v for k, v in R.items()} if isinstance(R, dict) else R
        # history: the caller edits the returned model (and freshly built single-operand results) in place, then builds the
        # same expression again -- the second result must not see those edits
        R2 = None
        if isinstance(R, dict):
            for l in labels:
                for g1 in ('BUFFER', 'OR', 'XOR', 'AND'):
                    E = getattr(sat, g1)(l)
                    E += 5; E *= 3
            R += 7; R *= 2
            li = iter(range(100)); gi = iter(sel)
            _, R2 = whole()
        return ('ok', tree, first, labels, unchanged, R2)

    def ev(t, a):
        if t[0] == 'label': return a[t[1]]
        if t[0] == 'poly': return int(O.bool_poly(t[1], a).get((), 0))
        vals = [ev(k, a) for k in t[2]]
        if not vals:
            return 1          # documented: gates without operands are True
        return int(truth(t[1], vals))

    def check(res):
        if res is None:
            return [Ob('unary gate without operand: not an expression', True)]
        if res[0] == 'keyerror':
            return [Ob('KeyError only with degree-2 model operands', res[2].startswith('models'), info={'msg': res[1]}, sig='KeyError')]
        _, tree, R, labels, unchanged, R2 = res
        obs = [Ob('inputs not modified', unchanged)]
        rl = {i for k in R for i in O.as_key(k)} if isinstance(R, dict) else set()
        rl2 = {i for k in R2 for i in O.as_key(k)} if isinstance(R2, dict) else set()
        if not (rl | rl2) <= set(labels):
            return obs + [Ob('result uses only the operands\' variables', False, info={'extra': sorted(map(repr, (rl | rl2) - set(labels)))})]
        if R2 is not None:
            bad2 = []
            for a in O.assigns(labels):
                d = padd(O.bool_poly(R2, a), to_poly(ev(tree, a)), -1)
                if d: bad2.append(tuple(a.values()))
            obs.append(Ob('rebuilding the expression after in-place edits of earlier results gives the truth function again', not bad2,
                          info={'first': repr(bad2[:1]), 'tree': repr(tree)[:300]}, sig='truth value after edits of earlier results'))
        rl = {i for k in R for i in O.as_key(k)} if isinstance(R, dict) else set()
        obs.append(Ob('result uses only the operands\' variables', rl <= set(labels), info={'extra': sorted(map(repr, rl - set(labels)))}))
        bad = []
        for a in O.assigns(labels):
            want = ev(tree, a)
            got = O.bool_poly(R, a) if isinstance(R, dict) else to_poly(R)
            d = padd(got, to_poly(want), -1)
            if d:
                bad.append((tuple(a.values()), want, d))
        obs.append(Ob('value equals the truth function on every assignment', not bad, info={'first': repr(bad[:1]), 'tree': repr(tree)[:300]},
                      sig='truth value (root %s)' % root))
        return obs
    return run, check


def jobs(tier, seed):
    J = []
    shapes = SHAPES_Q if tier == 'quick' else SHAPES_T
    for root in GATES:
        for si, shape in enumerate(shapes):
            if root in ('NOT', 'BUFFER') and len(shape) != 1:
                continue
            for leafmode in ['labels', 'labels_rep', 'labels_mixed', 'poly', 'models', 'models_int']:
                if leafmode == 'poly' and not shape: continue
                if tier == 'quick' and leafmode in ('models', 'models_int') and si % 2 == 1: continue
                J.append(dict(name='%s/shape%02d/%s' % (root, si, leafmode), sig='%s/%s' % (root, leafmode), module='vq.props.c07', make='make_tree',
                              args=dict(root=root, shape=[list(c) if isinstance(c, tuple) else c for c in shape], leafmode=leafmode),
                              budget_s=300 if tier == 'quick' else 1800))
    return J
