"""C10 -- problem classes encode their combinatorial problem faithfully."""
import itertools
import warnings

import z3

from ..core import Ob
from ..symx import Sym, to_poly, padd
from .. import oracle as O

LEVEL = 'model_checking'
ASSUMPTIONS = [
    'exact rational arithmetic; feasibility and cost are written from the problem statements on the oracle side (a few lines each), never taken from the class under test',
    'instance *data* is symbolic (weights, A, B real; lengths, c, S, b, numbers bounded integers); instance *shapes* (set systems, graphs, job/worker counts, matrix sizes, chain parameters) are enumerated',
    'strict mode assumes the documented threshold (SetCover/VertexCover A > B > 0 with max weight exactly 1; BILP A > B*sum|c|; JobSequencing A > B*max length; GraphPartitioning A > B*min(2*maxdegree,N)/8, unweighted) and a feasible instance',
    'numpy.allclose (SetCover weight normalisation, BILP validity) is replaced inside the harness by the scalar formula numpy documents, so that it can consume symbolic numbers',
]
STUBS = ['numpy.allclose -> elementwise |a-b| <= atol + rtol*|b| (harness only)']
OUTSIDE = ['larger instances', 'infeasible instances', 'M overrides', 'weighted GraphPartitioning thresholds (reported separately as default-mode only)', 'float rounding']
BOUNDS = {'quick': {'SetCover': '3 sets over 2 elements (2 systems), log_trick both; 3 pairs over 4 elements without log trick (15 QUBO variables)', 'VertexCover': '4 graphs on <=4 vertices', 'BILP': 'm=1,N=3 and m=2,N=2, c in [-1,1], S,b in [-1,1]',
                    'JobSequencing': '2 jobs x 2 workers, 1 x 2, 2 x 3, lengths in 1..2, log_trick both', 'GraphPartitioning': '3 graphs on 4 vertices', 'NumberPartitioning': '3 numbers in +-3',
                    'AlternatingSectorsChain': 'N<=5, chain_length 2..3, pbc both'},
          'thorough': {'SetCover': '+3 elements', 'JobSequencing': '+3 jobs, 3 workers', 'NumberPartitioning': '4 numbers in +-4', 'BILP': 'N=3,m=2'}}


def scalar_allclose(a, b, rtol=1e-05, atol=1e-08):
    import numpy as np
    a = np.asarray(a, dtype=object).ravel(); b = np.asarray(b, dtype=object).ravel()
    if len(a) != len(b):
        if len(a) == 1: a = [a[0]] * len(b)
        elif len(b) == 1: b = [b[0]] * len(a)
    return all(bool(abs(x - y) <= atol + rtol * abs(y)) for x, y in zip(a, b))


def ground_obligations(ctx, tag, Q, nv, spin, feas, cost, strict, extra_assume=(), max_nv=10):
    """feas(xs) -> bool | z3 Bool;  cost(xs) -> number | Sym | z3 term"""
    obs = []
    used = {i for k in Q for i in k}
    obs.append(Ob('%s: labels are 0..num_binary_variables-1' % tag, used <= set(range(nv)), info={'used': sorted(used), 'nv': nv}))
    if not used <= set(range(nv)) or nv > max_nv:
        return obs + [Ob('OUTSIDE-BOUND: too many variables', True)]
    dom = (1, -1) if spin else (0, 1)
    # The obligations depend on an assignment only through (energy, feasibility, cost): identical triples are encoded once.
    # "cost is optimal" is encoded with one auxiliary real copt pinned to the minimum feasible cost
    # (copt <= every feasible cost, copt == some feasible cost), so the formula is linear in the number of distinct triples.
    T, Es, FC = {}, {}, {}
    nX = 0
    for xs in itertools.product(dom, repeat=nv):
        nX += 1
        ep = O.val_poly(Q, dict(enumerate(xs)), spin)
        ke = frozenset(ep.items())
        f = feas(xs); c = cost(xs)
        kf = ('z', f.get_id()) if isinstance(f, z3.ExprRef) else bool(f)
        if isinstance(c, z3.ExprRef): kc = ('z', c.get_id())
        else:
            cp = to_poly(c); kc = frozenset(cp.items())
        if (ke, kf, kc) in T: continue
        if ke not in Es: Es[ke] = ctx.z(ep)
        if (kf, kc) not in FC:
            FC[(kf, kc)] = (f if isinstance(f, z3.BoolRef) else z3.BoolVal(bool(f)), c if isinstance(c, z3.ExprRef) else ctx.z(cp))
        T[(ke, kf, kc)] = (Es[ke],) + FC[(kf, kc)]
    trip = list(T.values())
    Evals = list(Es.values())
    feasible_instance = z3.Or([f for f, _ in FC.values()])
    m = z3.Real('m!min'); copt = z3.Real('c!opt')
    lower = z3.And([m <= e for e in Evals])
    optdef = z3.And(z3.And([z3.Implies(f, copt <= c) for f, c in FC.values()]), z3.Or([z3.And(f, copt == c) for f, c in FC.values()]))
    def good(t):
        e, f, c = t
        return z3.And(f, e == c, c <= copt)
    pre = z3.And(feasible_instance, optdef, *extra_assume)
    info = {'assignments': nX, 'distinct (energy, feasible, cost) triples': len(trip), 'distinct energies': len(Evals)}
    if strict:
        bad = z3.Or([z3.And(t[0] <= m, z3.Not(good(t))) for t in trip])
        obs.append(Ob('%s: every ground state decodes to a feasible optimal solution with energy = cost' % tag, z3.Implies(pre, z3.Not(z3.And(lower, bad))),
                      sig='%s ground states (strict threshold)' % tag, info=info))
    else:
        some = z3.Or([z3.And(t[0] <= m, good(t)) for t in trip])
        obs.append(Ob('%s: default weights: ground energy = optimal cost and some ground state is feasible-optimal' % tag,
                      z3.Implies(z3.And(pre, lower, z3.Or([e <= m for e in Evals])), some), sig='%s ground states (default weights)' % tag, info=info))
    if strict and nv >= 2:
        obs.append(Ob('twin: the energy is not constant', z3.And(pre, z3.Or([Evals[0] != e for e in Evals] or [z3.BoolVal(False)])), expect_sat=True))
    return obs


def conv_forms(xs, spin_form):
    """the same assignment as list / tuple / dict (also with keys inserted in reverse order), in boolean or spin form"""
    vals = [1 - 2 * x for x in xs] if spin_form else list(xs)
    return [('list', list(vals)), ('tuple', tuple(vals)), ('dict', dict(enumerate(vals))), ('dict-reversed', {i: vals[i] for i in range(len(vals) - 1, -1, -1)})]


# ------------------------------------------------------------------------------------------------ SetCover
SETSYS = {'s4': ({0, 1, 2, 3}, [{0, 1}, {0, 2}, {0, 3}]), 's1': ({0, 1}, [{0}, {1}, {0, 1}]), 's2': ({'a', 'b'}, [{'a'}, {'a', 'b'}, {'b'}]), 's3': ({0, 1, 2}, [{0, 1}, {1, 2}, {2}])}


def make_setcover(ctx, system, log, mode, weighted):
    from qubovert.problems import SetCover
    import qubovert.problems.np.covering._set_cover as scm
    Uset, V = SETSYS[system]
    n = len(V)
    if weighted:
        w = [ctx.real_var('w%d' % i, 0, 1, lo_strict=True) for i in range(n)]
        ctx.add_base(z3.Or([ctx.z(x) == 1 for x in w]))          # normalised: max(weights) == 1
    else:
        w = None
    strict = mode == 'strict'
    if strict:
        B = ctx.real_var('B', 0, lo_strict=True); A = ctx.real_var('A', 0, lo_strict=True)
        ctx.add_base(ctx.z(A) > ctx.z(B))
    else:
        A, B = 2, 1

    def run():
        old = scm.allclose; scm.allclose = scalar_allclose
        try:
            p = SetCover(set(Uset), [set(v) for v in V], weights=list(w) if w else None, log_trick=log)
            Q = p.to_qubo(A, B) if strict else p.to_qubo()
            nv = p.num_binary_variables
            checks = []
            for xs in itertools.product((0, 1), repeat=n):
                want = {i for i in range(n) if xs[i]}
                full = list(xs) + [0] * (nv - n)
                for sf in (False, True):
                    for nm, form in conv_forms(full, sf):
                        if sf and all(v == 1 for v in (form.values() if isinstance(form, dict) else form)) and False: continue
                        got = p.convert_solution(form, spin=sf)
                        checks.append(('convert_solution %s %s' % (nm, 'spin' if sf else 'bool'), got == want))
                        checks.append(('is_solution_valid %s %s' % (nm, 'spin' if sf else 'bool'),
                                       bool(p.is_solution_valid(form, spin=sf)) == (set().union(*[V[i] for i in want]) == Uset if want else not Uset)))
                checks.append(('is_solution_valid on a decoded set', bool(p.is_solution_valid(set(want))) == ((set().union(*[V[i] for i in want]) if want else set()) == Uset)))
            bf = p.solve_bruteforce()
        finally:
            scm.allclose = old
        return p, Q, nv, checks, bf

    def check(res):
        p, Q, nv, checks, bf = res
        obs = [Ob('%s #%d' % (nm, i), ok, sig=nm.split(' ')[0]) for i, (nm, ok) in enumerate(checks)]
        ws = w if w else [1] * n
        zB = ctx.z(B)
        def feas(xs): return (set().union(*[V[i] for i in range(n) if xs[i]]) if any(xs[:n]) else set()) == Uset
        def cost(xs):
            c = 0
            for i in range(n):
                if xs[i]: c = c + ws[i] * B
            return c
        obs += ground_obligations(ctx, 'SetCover', Q, nv, False, feas, cost, strict, max_nv=15)
        # problem-specific solve_bruteforce: feasible and of minimal weight
        okbf = isinstance(bf, set) and (set().union(*[V[i] for i in bf]) if bf else set()) == Uset
        obs.append(Ob('solve_bruteforce returns a cover', okbf, info={'bf': repr(bf)}))
        if okbf:
            wb = 0
            for i in bf: wb = wb + ws[i]
            conds = []
            for xs in itertools.product((0, 1), repeat=n):
                if feas(xs):
                    c = 0
                    for i in range(n):
                        if xs[i]: c = c + ws[i]
                    conds.append(ctx.z(wb) <= ctx.z(c))
            obs.append(Ob('solve_bruteforce returns a minimum-weight cover', z3.And(conds)))
        return obs
    return run, check


# ------------------------------------------------------------------------------------------------ VertexCover
GRAPHS = {'path3': {('a', 'b'), ('b', 'c')}, 'tri+pendant': {('a', 'b'), ('b', 'c'), ('a', 'c'), ('c', 'd')}, 'star': {('a', 'z'), ('b', 'z'), ('c', 'z')},
          'mixed': {(0, 'a'), ('a', (1, 't')), ((1, 't'), 0)}, 'square': {(0, 1), (1, 2), (2, 3), (3, 0)}, 'edge': {(0, 1)}, 'k4': {(0, 1), (0, 2), (0, 3), (1, 2), (1, 3), (2, 3)}}


def make_vertexcover(ctx, graph, mode):
    from qubovert.problems import VertexCover
    edges = GRAPHS[graph]
    strict = mode == 'strict'
    if strict:
        B = ctx.real_var('B', 0, lo_strict=True); A = ctx.real_var('A', 0, lo_strict=True)
        ctx.add_base(ctx.z(A) > ctx.z(B))
    else:
        A, B = 2, 1

    def run():
        p = VertexCover(set(edges))
        Q = p.to_qubo(A, B) if strict else p.to_qubo()
        nv = p.num_binary_variables
        verts = sorted({v for e in edges for v in e}, key=repr)
        dec = {}
        checks = []
        for xs in itertools.product((0, 1), repeat=nv):
            covs = []
            for sf in (False, True):
                for nm, form in conv_forms(xs, sf):
                    got = p.convert_solution(form, spin=sf); covs.append(got)
                    checks.append(('is_solution_valid %s' % nm, bool(p.is_solution_valid(form, spin=sf)) == all(u in got or v in got for u, v in edges)))
            checks.append(('convert_solution agrees across forms', all(c == covs[0] for c in covs) and covs[0] <= set(verts) and len(covs[0]) == sum(xs)))
            dec[xs] = covs[0]
        bf = p.solve_bruteforce()
        return p, Q, nv, dec, checks, bf

    def check(res):
        p, Q, nv, dec, checks, bf = res
        nvert = len({v for e in edges for v in e})
        obs = [Ob('num_binary_variables = number of vertices', nv == nvert)] + [Ob('%s #%d' % (nm, i), ok, sig=nm) for i, (nm, ok) in enumerate(checks)]
        feas = lambda xs: all(u in dec[xs] or v in dec[xs] for u, v in edges)
        cost = lambda xs: B * len(dec[xs])
        obs += ground_obligations(ctx, 'VertexCover', Q, nv, False, feas, cost, strict)
        mn = min(len(dec[xs]) for xs in dec if feas(xs))
        obs.append(Ob('solve_bruteforce returns a minimum vertex cover', isinstance(bf, set) and all(u in bf or v in bf for u, v in edges) and len(bf) == mn, info={'bf': repr(bf)}))
        return obs
    return run, check


# ------------------------------------------------------------------------------------------------ BILP
def make_bilp(ctx, m, N, mode, R=2):
    from qubovert.problems import BILP
    import numpy as np
    c = [ctx.int_var('c%d' % i, -R, R) for i in range(N)]
    S = [[ctx.int_var('S%d%d' % (j, i), -1, R) for i in range(N)] for j in range(m)]
    b = [ctx.int_var('b%d' % j, -1, R) for j in range(m)]
    strict = mode == 'strict'
    B = ctx.real_var('B', 0, lo_strict=True) if strict else 1
    A = ctx.real_var('A', 0, lo_strict=True) if strict else None
    if strict:
        sa = z3.Sum([O.zabs(ctx.z(x)) for x in c])
        ctx.add_base(ctx.z(A) > ctx.z(B) * sa)

    def run():
        old = np.allclose; np.allclose = scalar_allclose
        try:
            p = BILP(list(c), [list(r) for r in S], list(b))
            Q = p.to_qubo(A, B) if strict else p.to_qubo()
            valid = {}
            checks = []
            for xs in itertools.product((0, 1), repeat=N):
                vs = []
                for sf in (False, True):
                    for nm, form in conv_forms(xs, sf):
                        got = p.convert_solution(form, spin=sf)
                        checks.append(('convert_solution %s' % nm, list(got) == list(xs)))
                        vs.append(bool(p.is_solution_valid(form, spin=sf)))
                checks.append(('is_solution_valid agrees across forms', all(v == vs[0] for v in vs)))
                valid[xs] = vs[0]
        finally:
            np.allclose = old
        return p, Q, valid, checks

    def check(res):
        p, Q, valid, checks = res
        obs = [Ob('%s #%d' % (nm, i), ok, sig=nm) for i, (nm, ok) in enumerate(checks)]
        def feas(xs):
            return z3.And([ctx.z(sum((S[j][i] * xs[i] for i in range(N)), 0)) == ctx.z(b[j]) for j in range(m)])
        def cost(xs):
            t = 0
            for i in range(N): t = t + c[i] * xs[i]
            return B * t
        for xs, v in valid.items():
            obs.append(Ob('is_solution_valid %s  <=>  S x = b' % (xs,), feas(xs) == z3.BoolVal(v), sig='is_solution_valid'))
        if strict:
            obs += ground_obligations(ctx, 'BILP', Q, N, False, feas, cost, True)
        return obs
    return run, check


# ------------------------------------------------------------------------------------------------ JobSequencing
def make_jobseq(ctx, njobs, nworkers, log, mode, Lmax=2):
    from qubovert.problems import JobSequencing
    L = [ctx.int_var('L%d' % i, 1, Lmax) for i in range(njobs)]
    strict = mode == 'strict'
    B = ctx.real_var('B', 0, lo_strict=True)
    A = ctx.real_var('A', 0, lo_strict=True) if strict else None
    m = nworkers

    def run():
        p = JobSequencing(list(L), m, log_trick=log)
        Q = p.to_qubo(A=A, B=B) if strict else p.to_qubo(B=B)
        nv = int(p.num_binary_variables)
        nx = m * njobs
        checks = []
        for xs in itertools.product((0, 1), repeat=nx):
            full = list(xs) + [0] * (nv - nx)
            want = tuple({j for j in range(njobs) if xs[j * m + w]} for w in range(m))
            ind = all(sum(xs[j * m + w] for w in range(m)) == 1 for j in range(njobs))
            for sf in (False, True):
                for nm, form in conv_forms(full, sf):
                    got = p.convert_solution(form, spin=sf)
                    checks.append(('convert_solution %s' % nm, got == want))
                    checks.append(('is_solution_valid %s' % nm, bool(p.is_solution_valid(form, spin=sf)) == ind))
            checks.append(('is_solution_valid on a decoded schedule', bool(p.is_solution_valid(want)) == ind))
        bf = p.solve_bruteforce()
        return p, Q, nv, p._max_L, checks, bf

    def check(res):
        p, Q, nv, maxL, checks, bf = res
        obs = [Ob('%s #%d' % (nm, i), ok, sig=nm) for i, (nm, ok) in enumerate(checks)]
        zB = ctx.z(B)
        assume = [ctx.z(A) > zB * ctx.z(maxL)] if strict else []
        def loads(xs):
            out = []
            for w in range(m):
                t = 0
                for j in range(njobs):
                    if xs[j * m + w]: t = t + L[j]
                out.append(ctx.z(t))
            return out
        def feas(xs): return all(sum(xs[j * m + w] for w in range(m)) == 1 for j in range(njobs))
        def cost(xs):
            ls = loads(xs); mk = ls[0]
            for x in ls[1:]: mk = z3.If(x > mk, x, mk)
            return zB * mk
        obs += ground_obligations(ctx, 'JobSequencing', Q, nv, False, feas, cost, strict, extra_assume=assume)
        # solve_bruteforce: feasible schedule of minimal makespan
        okbf = isinstance(bf, tuple) and len(bf) == m and sorted(j for s in bf for j in s) == list(range(njobs))
        obs.append(Ob('solve_bruteforce returns a feasible schedule', okbf, info={'bf': repr(bf)}))
        if okbf:
            xsb = tuple(1 if j in bf[w] else 0 for j in range(njobs) for w in range(m))
            X = [xs for xs in itertools.product((0, 1), repeat=m * njobs) if feas(xs)]
            obs.append(Ob('solve_bruteforce returns a schedule of minimal makespan', z3.And([cost(xsb) <= cost(y) for y in X])))
        return obs
    return run, check


# ------------------------------------------------------------------------------------------------ GraphPartitioning
GP = {'path4': {(0, 1), (1, 2), (2, 3)}, 'path+chord': {(0, 1), (1, 2), (2, 3), (0, 2)}, 'square': {('a', 'b'), ('b', 'c'), ('c', 'd'), ('d', 'a')},
      'two edges': {(0, 1), (2, 3)}, 'k4': {(0, 1), (0, 2), (0, 3), (1, 2), (1, 3), (2, 3)}, 'edge': {(0, 1)}}


def make_graphpart(ctx, graph, mode, weighted=False):
    from qubovert.problems import GraphPartitioning
    edges = sorted(GP[graph], key=repr)
    strict = mode == 'strict'
    if weighted:
        wts = {e: ctx.real_var('w%d' % i, 0, lo_strict=True) for i, e in enumerate(edges)}
    B = ctx.real_var('B', 0, lo_strict=True)
    A = ctx.real_var('A', 0, lo_strict=True) if strict else None

    def run():
        p = GraphPartitioning(dict(wts) if weighted else set(edges))
        Lq = p.to_quso(A, B) if strict else p.to_quso(B=B)
        nv = p.num_binary_variables
        dec, checks = {}, []
        for xs in itertools.product((1, -1), repeat=nv):
            parts = []
            for nm, form in (('list', list(xs)), ('tuple', tuple(xs)), ('dict', dict(enumerate(xs)))):
                got = p.convert_solution(form, spin=True); parts.append(got)
                checks.append(('is_solution_valid %s' % nm, bool(p.is_solution_valid(form, spin=True)) == (len(got[0]) == len(got[1]))))
            checks.append(('convert_solution agrees across forms', all(x == parts[0] for x in parts) and parts[0][0] | parts[0][1] == p.V and not parts[0][0] & parts[0][1]
                           and len(parts[0][0]) == sum(1 for v in xs if v == 1)))
            dec[xs] = parts[0]
        bf = p.solve_bruteforce(A, B) if (strict and nv <= 4) else None
        return p, Lq, nv, dec, checks, p.degree, bf

    def check(res):
        p, Lq, nv, dec, checks, deg, bf = res
        obs = [Ob('%s #%d' % (nm, i), ok, sig=nm) for i, (nm, ok) in enumerate(checks)]
        zB = ctx.z(B)
        assume = [ctx.z(A) > zB * min(2 * deg, nv) / 8] if strict else []
        if bf is not None:
            okbf = isinstance(bf, tuple) and len(bf) == 2 and bf[0] | bf[1] == p.V and not (bf[0] & bf[1])
            obs.append(Ob('solve_bruteforce (weights above the threshold) returns a partition of the vertices', z3.Implies(z3.And(assume), z3.BoolVal(okbf)), info={'bf': repr(bf)},
                          sig='GraphPartitioning solve_bruteforce'))
            if okbf:
                def cutw(part):
                    t = 0
                    for (u, v) in edges:
                        if (u in part) != (v in part): t = t + (wts[(u, v)] if weighted else 1)
                    return ctx.z(B * t)
                import itertools as _it
                verts = sorted(p.V, key=repr)
                halves = [set(c) for c in _it.combinations(verts, len(verts) // 2)] if len(verts) % 2 == 0 else []
                obs.append(Ob('solve_bruteforce (weights above the threshold) returns a balanced partition of minimal cut',
                              z3.Implies(z3.And(assume), z3.And(z3.BoolVal(len(bf[0]) == len(bf[1])), z3.And([cutw(bf[0]) <= cutw(h) for h in halves] or [z3.BoolVal(True)]))),
                              info={'bf': repr(bf)}, sig='GraphPartitioning solve_bruteforce'))
        feas = lambda xs: len(dec[xs][0]) == len(dec[xs][1])
        def cost(xs):
            t = 0
            for (u, v) in edges:
                if (u in dec[xs][0]) != (v in dec[xs][0]):
                    t = t + (wts[(u, v)] if weighted else 1)
            return B * t
        obs += ground_obligations(ctx, 'GraphPartitioning', Lq, nv, True, feas, cost, strict, extra_assume=assume)
        return obs
    return run, check


# ------------------------------------------------------------------------------------------------ NumberPartitioning
def make_numpart(ctx, n, R, container):
    from qubovert.problems import NumberPartitioning
    s = [ctx.int_var('s%d' % i, -R, R) for i in range(n)]
    for x in s: ctx.add_base(ctx.z(x) != 0)
    A = ctx.real_var('A', 0, lo_strict=True)
    default = ctx.int_var('defaultA', 0, 1)

    def run():
        cont = list if container == 'list' else tuple
        p = NumberPartitioning(cont(s))
        usedef = int(default)
        Lq = p.to_quso() if usedef else p.to_quso(A)
        checks, valid = [], {}
        for xs in itertools.product((1, -1), repeat=n):
            vs = []
            for nm, form in (('list', list(xs)), ('tuple', tuple(xs)), ('dict', dict(enumerate(xs)))):
                got = p.convert_solution(form, spin=True)
                ok = (isinstance(got, tuple) and len(got) == 2 and len(got[0]) == sum(1 for v in xs if v == 1) and len(got[1]) == n - len(got[0]))
                checks.append(('convert_solution %s splits the numbers' % nm, ok))
                vs.append(bool(p.is_solution_valid(form, spin=True)))
            valid[xs] = vs[0]
            checks.append(('is_solution_valid agrees across forms', all(v == vs[0] for v in vs)))
        bf = p.solve_bruteforce() if n <= 3 else None
        return p, Lq, valid, checks, usedef, bf

    def check(res):
        p, Lq, valid, checks, usedef, bf = res
        obs = [Ob('%s #%d' % (nm, i), ok, sig=nm) for i, (nm, ok) in enumerate(checks)]
        if bf is not None:
            okbf = isinstance(bf, tuple) and len(bf) == 2 and len(bf[0]) + len(bf[1]) == n
            obs.append(Ob('solve_bruteforce splits the numbers in two', okbf, info={'bf': repr(bf)}))
            if okbf:
                d0 = 0
                for x in bf[0]: d0 = d0 + x
                for x in bf[1]: d0 = d0 - x
                conds = []
                for xs in itertools.product((1, -1), repeat=n):
                    t = 0
                    for v_, x_ in zip(s, xs): t = t + v_ * x_
                    conds.append(ctx.z(d0 * d0) <= ctx.z(t * t))
                obs.append(Ob('solve_bruteforce returns a partition of minimal difference', z3.And(conds), sig='NumberPartitioning solve_bruteforce'))
        def diff(xs):
            t = 0
            for v, x in zip(s, xs): t = t + v * x
            return t
        for xs, v in valid.items():
            obs.append(Ob('is_solution_valid %s  <=>  the two sums are equal' % (xs,), (ctx.z(diff(xs)) == 0) == z3.BoolVal(v), sig='is_solution_valid'))
        Az = 1 if usedef else A
        feas = lambda xs: ctx.z(diff(xs)) == 0
        cost = lambda xs: Az * diff(xs) * diff(xs)
        obs += ground_obligations(ctx, 'NumberPartitioning', Lq, n, True, feas, cost, True)
        # also without assuming a perfect partition exists: ground states minimise |difference| and energy = A * difference^2
        X = list(itertools.product((1, -1), repeat=n))
        E = {xs: ctx.z(O.spin_poly(Lq, dict(enumerate(xs)))) for xs in X}
        obs.append(Ob('energy = A * (difference of the two sums)^2 on every assignment', z3.And([E[xs] == ctx.z(cost(xs)) for xs in X]), sig='NumberPartitioning energy'))
        return obs
    return run, check


# ------------------------------------------------------------------------------------------------ AlternatingSectorsChain
def make_asc(ctx, N, clen, pbc):
    from qubovert.problems import AlternatingSectorsChain
    lo = ctx.real_var('min_strength', 0, lo_strict=True)
    hi = ctx.real_var('max_strength', 0, lo_strict=True)

    def run():
        p = AlternatingSectorsChain(N, clen, lo, hi)
        Lq = p.to_quso(pbc)
        checks = []
        for xs in itertools.product((1, -1), repeat=N):
            want_valid = all(x == 1 for x in xs) or all(x == -1 for x in xs)
            for sf in (True, False):
                vals = list(xs) if sf else [(1 - x) // 2 for x in xs]
                shuffled = {i: vals[i] for i in list(range(N))[::-1]}          # same assignment, keys inserted in reverse order
                for nm, form in (('list', list(vals)), ('tuple', tuple(vals)), ('dict', dict(enumerate(vals))), ('dict (reverse insertion order)', shuffled)):
                    got = p.convert_solution(form, spin=sf)
                    checks.append(('convert_solution %s %s gives the spins' % (nm, 'spin' if sf else 'bool'), list(got.values() if isinstance(got, dict) else got) == list(xs)))
                    checks.append(('is_solution_valid %s %s' % (nm, 'spin' if sf else 'bool'), bool(p.is_solution_valid(form, spin=sf)) == want_valid))
        if 2 <= N <= 4:
            bf = p.solve_bruteforce(pbc)
            checks.append(('solve_bruteforce returns an aligned chain', len(bf) == N and (all(x == 1 for x in bf) or all(x == -1 for x in bf))))
        return p, Lq, checks

    def check(res):
        p, Lq, checks = res
        obs = [Ob('%s #%d' % (nm, i), ok, sig=nm) for i, (nm, ok) in enumerate(checks)]
        feas = lambda xs: all(x == 1 for x in xs) or all(x == -1 for x in xs)
        allup = tuple([1] * N)
        cst = O.spin_poly(Lq, dict(enumerate(allup)))
        cost = lambda xs: Sym(cst)
        if N >= 2:
            obs += ground_obligations(ctx, 'AlternatingSectorsChain', Lq, N, True, feas, cost, True)
        return obs
    return run, check


def jobs(tier, seed):
    J = []
    def add(name, make, args, budget=400):
        J.append(dict(name=name, sig=name.split('/')[0] + '/' + name.split('/')[-1], module='vq.props.c10', make=make, args=args, budget_s=budget if tier == 'quick' else 2400,
                      final_timeout_ms=120000, timeout_ms=60000))
    T = tier != 'quick'
    for system in (['s1', 's2'] + (['s3'] if T else [])):
        for log in (True, False):
            for mode in ('strict', 'default'):
                add('SetCover/%s/log=%d/w=0/%s' % (system, log, mode), 'make_setcover', dict(system=system, log=log, mode=mode, weighted=False))
        if T or system == 's1':
            add('SetCover/%s/log=%d/w=1/strict' % (system, T), 'make_setcover', dict(system=system, log=T, mode='strict', weighted=True))
        add('SetCover/%s/log=0/w=1/default' % system, 'make_setcover', dict(system=system, log=False, mode='default', weighted=True))
    # a set system in which the optimal cover covers one element three times while every subset has two elements: 15 QUBO variables without
    # the log trick (2^15 assignments, a few dozen distinct (energy, feasible, cost) triples)
    for mode in ('strict', 'default'):
        add('SetCover/s4/log=0/w=0/%s' % mode, 'make_setcover', dict(system='s4', log=False, mode=mode, weighted=False), budget=900)
    if T:
        add('SetCover/s4/log=1/w=0/strict', 'make_setcover', dict(system='s4', log=True, mode='strict', weighted=False))
        add('SetCover/s4/log=0/w=1/strict', 'make_setcover', dict(system='s4', log=False, mode='strict', weighted=True))
    for g in (['path3', 'tri+pendant', 'star', 'mixed', 'edge'] + (['square', 'k4'] if T else [])):
        for mode in ('strict', 'default'):
            add('VertexCover/%s/%s' % (g, mode), 'make_vertexcover', dict(graph=g, mode=mode))
    for (m, N) in ([(1, 3)] + ([(2, 2), (2, 3)] if T else [(2, 1)])):
        add('BILP/m%d/N%d/strict' % (m, N), 'make_bilp', dict(m=m, N=N, mode='strict', R=2 if (T and (m, N) != (2, 3)) else 1))
    for (nj, nw) in ([(2, 2), (1, 2), (2, 3)] + ([(3, 2), (1, 3)] if T else [])):     # three workers: the per-worker terms are no longer all the same
        for log in (True, False):
            for mode in ('strict', 'default'):
                add('JobSequencing/j%d/w%d/log=%d/%s' % (nj, nw, log, mode), 'make_jobseq', dict(njobs=nj, nworkers=nw, log=log, mode=mode, Lmax=2 if nj == 2 else 2))
    for g in (['path4', 'path+chord', 'square', 'two edges'] + (['k4', 'edge'] if T else [])):
        for mode in ('strict', 'default'):
            add('GraphPartitioning/%s/%s' % (g, mode), 'make_graphpart', dict(graph=g, mode=mode))
    for cont in ('list', 'tuple'):
        add('NumberPartitioning/n3/%s/strict' % cont, 'make_numpart', dict(n=3, R=3, container=cont))
    if T:
        add('NumberPartitioning/n4/list/strict', 'make_numpart', dict(n=4, R=4, container='list'))
    for N in ([2, 3, 5] + ([1, 4, 6] if T else [])):
        for clen in (2, 3):
            for pbc in (False, True):
                add('AlternatingSectorsChain/N%d/len%d/pbc=%d/strict' % (N, clen, pbc), 'make_asc', dict(N=N, clen=clen, pbc=pbc))
    return J
