"""C18 -- subvalue / subgraph / normalize preserve the represented function."""
import itertools

import z3

from ..core import Ob
from ..symx import Sym, to_poly, padd
from .. import oracle as O

LEVEL = 'model_checking'
ASSUMPTIONS = [
    'exact rational arithmetic',
    'coefficients, substituted values and the normalisation target are symbolic reals (a symbolic substituted value plays the role of a numeric or symbolic one); target value > 0',
    'partial assignments / node sets / connection maps over 3 labels are enumerated',
    'evaluation with a substituted symbolic value uses product semantics (value of a term = coefficient times the product of its variables\' values)',
    'normalize on an all-zero raw dict divides by zero, as it does on plain numbers: outside the property',
]
OUTSIDE = ['more than 3 labels (4 in the thorough tier)', 'float rounding', 'all-zero dict passed to normalize']
BOUNDS = {'quick': {'labels': 3, 'fixed / outside-node sets': '1, 2 or all 3 labels', 'universe': '4-6 monomials', 'types': '10 model types + dict'}, 'thorough': {'universe': 'dense'}}


def gval(model, asg):
    tot = 0
    for k, c in model.items():
        t = c
        for i in O.as_key(k):
            t = t * asg[i]
        tot = tot + t
    return tot


def make_sub(ctx, src, which, fixed_idx, method=False, dense=False, nlab=3):
    from qubovert.utils import subvalue, subgraph
    TY = O.types()
    T = TY[src]
    spin = O.is_spin_name(src)
    labs = list(range(nlab)) if src in O.MATRIX_TYPES else O.LABEL_POOL[:nlab]
    deg2 = src in O.DEG2_TYPES
    if nlab == 4:
        U = O.universe(labs, 1) + [(labs[0], labs[1]), (labs[1], labs[2]), (labs[2], labs[3])] + ([] if deg2 else [(labs[0], labs[2], labs[3]), tuple(labs)])
    elif dense:
        U = O.universe(labs, 2 if deg2 else 3)
    else:
        U = [(), (labs[0],), (labs[0], labs[1]), (labs[1], labs[2])] + ([tuple(labs)] if not deg2 else [(labs[2],)])
    if src == 'dict':
        U = U + [(labs[1], labs[0]), (labs[0], labs[0]), (labs[1], labs[2], labs[1])]       # unsorted and repeated labels (raw dict)
    if len(fixed_idx) != 2 and () in U:
        U = [k for k in U if k != ()] + [()]          # the constant is not the first entry: terms that collapse onto () come before it
    cs = {k: ctx.real_var('c%d' % i) for i, k in enumerate(U)}
    v0 = ctx.real_var('v0')
    fixed = [labs[i] for i in fixed_idx]
    rest = [l for l in labs if l not in fixed]

    def run():
        G = T({k: cs[k] for k in U})
        before = O.snapshot(G)
        vals = {l: (v0 if i == 0 else (-1 if spin else 1)) for i, l in enumerate(fixed)}
        if which == 'subvalue':
            D = G.subvalue(vals) if method else subvalue(vals, G)
            outs = {'subvalue': D}
        else:
            nodes = set(rest)
            f = (lambda n, c=None: G.subgraph(n, c)) if method else (lambda n, c=None: subgraph(G, n, c))
            outs = {'subgraph(conn)': f(nodes, vals), 'subgraph(default)': f(nodes)}
            if rest:
                # connections that also mention a node: only variables outside the node set are fixed
                outs['subgraph(conn incl. a node)'] = f(nodes, {**vals, rest[0]: v0 + 1})
        return G, vals, outs, before == O.snapshot(G)

    def check(res):
        G, vals, outs, unchanged = res
        obs = [Ob('argument unchanged', unchanged)]
        Gwo = {k: v for k, v in G.items() if O.as_key(k) != ()}
        for name, D in outs.items():
            obs.append(Ob('%s keeps the type' % name, type(D) is T, info={'type': type(D).__name__}))
            used = {i for k in D for i in O.as_key(k)}
            obs.append(Ob('%s depends on the remaining variables only' % name, used <= set(rest), info={'used': list(map(repr, used))}))
            if not used <= set(rest): continue
            bad = []
            for a in O.assigns(rest, spin):
                full = dict(a)
                if name == 'subgraph(default)':
                    full.update({l: 0 for l in fixed}); ref = Gwo
                elif name in ('subgraph(conn)', 'subgraph(conn incl. a node)'):
                    full.update(vals); ref = Gwo
                else:
                    full.update(vals); ref = G
                d = to_poly(gval(D, a) - gval(ref, full))
                if d: bad.append(ctx.z(d) != 0)
            obs.append(Ob('%s value identity on every assignment of the remaining variables' % name, z3.Not(z3.Or(bad)) if bad else True))
            if hasattr(D, 'values'):
                obs.append(Ob('%s stores no zero coefficient' % name, z3.And([ctx.z(v) != 0 for v in D.values()] or [z3.BoolVal(True)])))
        return obs
    return run, check


def make_normalize(ctx, src, method=False):
    from qubovert.utils import normalize
    TY = O.types()
    T = TY[src]
    labs = list(range(2)) if src in O.MATRIX_TYPES else O.LABEL_POOL[:2]
    U = [(), (labs[0],), (labs[0], labs[1])]
    cs = {k: ctx.real_var('c%d' % i) for i, k in enumerate(U)}
    val = ctx.real_var('val', 0, lo_strict=True)
    default = ctx.int_var('use_default', 0, 1)

    def run():
        G = T({k: cs[k] for k in U})
        if src == 'dict' and not any(G.values()):
            # all-zero raw dict: division by zero, outside the property (models never store zeros)
            for v in G.values():
                if v: break
            return None
        if not G:
            if method:
                G.normalize(val); return ('empty', G)
            return None
        usedef = int(default)
        orig = {k: v for k, v in G.items()}
        if method:
            R = G
            if usedef: G.normalize()
            else: G.normalize(val)
        else:
            R = normalize(G) if usedef else normalize(G, val)
        return ('ok', orig, R, usedef)

    def check(res):
        if res is None:
            return [Ob('empty / all-zero input: not judged', True)]
        if res[0] == 'empty':
            return [Ob('normalize() on an empty model is a no-op', not res[1])]
        _, orig, R, usedef = res
        obs = [Ob('normalize keeps the type', type(R) is T, info={'type': type(R).__name__}),
               Ob('normalize keeps the support', set(R) == set(orig))]
        if set(R) != set(orig): return obs
        ks = list(orig)
        k0 = ks[0]
        prop = [ctx.z(to_poly(R[k] * orig[k0] - R[k0] * orig[k])) == 0 for k in ks[1:]]
        obs.append(Ob('one common factor scales all coefficients', z3.And(prop) if prop else True))
        zval = z3.RealVal(1) if usedef else ctx.z(val)
        absR = [O.zabs(ctx.z(R[k])) for k in ks]
        obs.append(Ob('largest magnitude equals the requested value', z3.And(z3.And([a <= zval for a in absR]), z3.Or([a == zval for a in absR]))))
        return obs
    return run, check


def jobs(tier, seed):
    J = []
    def add(name, make, args):
        J.append(dict(name=name, sig=name, module='vq.props.c18', make=make, args=args, budget_s=300 if tier == 'quick' else 1800, timeout_ms=30000))
    for src in O.BOOL_TYPES + O.SPIN_TYPES + ['dict']:
        for which in ('subvalue', 'subgraph'):
            for fi, fixed in enumerate([[0], [1, 2], [0, 1, 2]]):   # the last one: nothing remains (empty node set / everything substituted)
                for method in ([False, True] if src != 'dict' else [False]):
                    if tier == 'quick' and method and fi != 1:
                        continue
                    add('%s/%s/fixed=%s%s' % (which, src, fixed, '/method' if method else ''), 'make_sub',
                        dict(src=src, which=which, fixed_idx=fixed, method=method, dense=(tier != 'quick')))
        if tier != 'quick':
            for which in ('subvalue', 'subgraph'):
                for fixed in ([0, 3], [1], [1, 2, 3]):
                    add('%s/%s/n4/fixed=%s' % (which, src, fixed), 'make_sub', dict(src=src, which=which, fixed_idx=fixed, method=(src != 'dict' and fixed == [1]), nlab=4))
        add('normalize/%s' % src, 'make_normalize', dict(src=src))
        if src != 'dict':
            add('normalize/%s/method' % src, 'make_normalize', dict(src=src, method=True))
    return J
