"""C08 -- constrained optimum survives penalisation, reduction and solution conversion."""
import itertools
import warnings

import z3

from ..core import Ob
from ..symx import Sym, to_poly, padd
from .. import oracle as O

LEVEL = 'model_checking'
ASSUMPTIONS = [
    'exact rational arithmetic',
    'objective f: symbolic real coefficients on the stated universe (<= 4 monomials over 3 labels); one common weight lam for all constraints with lam > f(x) - f(y) for all assignment pairs (i.e. lam > max f - min f), assumed in the solver',
    'constraint sets are drawn from a concrete menu of feasible integer constraints (all six relations, logical forms, log_trick both ways); boolean and spin models',
    'degree reduction uses the default penalty',
]
OUTSIDE = ['objectives with more than 4 monomials', 'n + ancillas > 9', 'symbolic constraint polynomials (C02/C03 cover those)', 'different weights per constraint', 'float rounding']
BOUNDS = {'quick': {'forms': ['model itself', 'to_qubo', 'to_quso', 'solve_bruteforce (n+ancillas<=5)'], 'menus': '13 (comparison constraints, log_trick both ways, two- and three-input logical constraints)'},
          'thorough': {'forms': ['model itself', 'to_qubo', 'to_quso', 'to_pubo', 'to_puso', 'solve_bruteforce'], 'menus': 'all'}}

from .c06 import GATES, truth

REL = {'le': lambda v: v <= 0, 'eq': lambda v: v == 0, 'ne': lambda v: v != 0, 'gt': lambda v: v > 0, 'lt': lambda v: v < 0, 'ge': lambda v: v >= 0}

# boolean menus over labels x0,x1,x2
MENU_B = {
    'le_sum': [('le', {('x0',): 1, ('x1',): 1, ('x2',): 1, (): -2}, True)],
    'eq+ne': [('eq', {('x0',): 1, ('x1',): -1}, True), ('ne', {('x1',): 1, ('x2',): -1}, True)],
    'gt_nolog': [('gt', {('x0',): 2, ('x1',): 1, ('x2',): 1, (): -2}, False)],
    'AND+lt': [('AND', ('x0', 'x1'), None), ('lt', {('x2',): 1, ('x0',): -1, (): 0}, True)],
    'ge_prod': [('ge', {('x0', 'x1'): 2, ('x2',): -1, (): -1}, True)],
    'OR+eqAND': [('OR', ('x0', 'x2'), None), ('eq_AND', ('x2', 'x0', 'x1'), None)],
    'lt+le': [('lt', {('x0',): 1, ('x1',): 1, (): -2}, True), ('le', {('x1',): 1, ('x2',): 1, (): -1}, True)],
    'XOR+ge': [('XOR', ('x0', 'x1'), None), ('ge', {('x2',): 1, ('x0',): -1}, True)],
    'ne_nolog': [('ne', {('x0',): 1, ('x1',): 1, ('x2',): -1}, False)],
    'le_pair': [('le', {('x0',): 1, ('x1',): 1, (): -1}, True)],
    'le_deep_nolog': [('le', {('x0',): 1, ('x2',): -3}, False)],
    'ge_deep_nolog': [('ge', {('x1',): 4, ('x0',): -1, ('x2',): -1, (): -1}, False)],
    'ne_lopsided': [('ne', {('x0',): 1, ('x1',): 2, (): -2}, True)],                     # range -2..1: more room below zero than above
    'ne_lopsided_nolog': [('ne', {('x0',): 1, ('x1',): 1, ('x2',): 1, (): -3}, False)],
    'eq_zxy': [('eq', {('x2',): 1, ('x0', 'x1'): 1}, True)],                                # NOT the z == x*y special form (same signs)
    'eq_2z2xy+le': [('eq', {('x2',): 2, ('x0', 'x1'): 2}, True), ('le', {('x0',): 1, ('x1',): 1, (): -1}, True)],
    'eq_z-xy': [('eq', {('x2',): 1, ('x0', 'x1'): -1}, True)],                               # the special form itself
    # logical constraints with three inputs (the output is the first label)
    'eqOR3': [('eq_OR', ('x3', 'x0', 'x1', 'x2'), None)],
    'eqNOR3+NAND': [('eq_NOR', ('x3', 'x0', 'x1', 'x2'), None), ('NAND', ('x0', 'x3'), None)],
    'eqAND3': [('eq_AND', ('x3', 'x0', 'x1', 'x2'), None)],
    'eqNAND3+OR': [('eq_NAND', ('x3', 'x0', 'x1', 'x2'), None), ('OR', ('x1', 'x3'), None)],
    'eqXOR+NOR': [('eq_XOR', ('x2', 'x0', 'x1'), None), ('NOR', ('x3', 'x0'), None)],
    'eqXNOR3': [('eq_XNOR', ('x3', 'x0', 'x1', 'x2'), None)],
    'XNOR+eqNOT': [('XNOR', ('x0', 'x1', 'x2'), None), ('eq_NOT', ('x3', 'x0'), None)],
}
# spin menus over z0,z1,z2
MENU_S = {
    'le_deep_nolog': [('le', {('x0',): 1, ('x2',): -2, (): 0}, False)],
    'le_sum': [('le', {('x0',): 1, ('x1',): 1, ('x2',): 1, (): -1}, True)],
    'eq': [('eq', {('x0',): 1, ('x1',): -1}, True)],
    'gt+ge': [('gt', {('x1',): 1, ('x2',): 2, (): 1}, True), ('ge', {('x0',): -2, ('x1',): -1, (): 1}, True)],
    'ne': [('ne', {('x0',): 1, ('x1',): 1, ('x2',): 1, (): 1}, True)],
    'lt_nolog': [('lt', {('x0',): 1, ('x2',): 1, (): -1}, False)],
    'gt+le': [('gt', {('x0',): 1, ('x1',): 1, (): 1}, True), ('le', {('x1',): 1, ('x2',): 1, (): 0}, True)],
    'ne_lopsided': [('ne', {('x0',): 1, ('x1',): 2, (): -1}, True)],                     # values -4, -2, 0, 2
    'eq_zxy': [('eq', {('x2',): 1, ('x0', 'x1'): 1, (): 0}, True)],
}


def holds(cons, a, spin):
    for kind, P, lt in cons:
        if kind in GATES:
            if not truth(kind, [a[l] for l in P]): return False
        elif kind.startswith('eq_'):
            if a[P[0]] != (1 if truth(kind[3:], [a[l] for l in P[1:]]) else 0): return False
        else:
            v = 0
            for k, c in P.items():
                t = c
                for i in k:
                    t *= a[i]
                v += t
            if not REL[kind](v): return False
    return True


def make_flow(ctx, spin, menu, form, U=None):
    import qubovert as qv
    U = [tuple(k) for k in (U or [['x0'], ['x1'], ['x2'], ['x0', 'x1']])]
    cons = (MENU_S if spin else MENU_B)[menu]
    labs = sorted({'x0', 'x1', 'x2'} | {i for k in U for i in k} | {l for kind, P, _ in cons if isinstance(P, tuple) for l in P})
    cs = {k: ctx.real_var('f%d' % i) for i, k in enumerate(U)}
    lam = ctx.real_var('lam', 0, lo_strict=True)
    allx = list(O.assigns(labs, spin))
    fv = {tuple(a[l] for l in labs): ctx.z(O.val_poly(cs, a, spin)) for a in allx}
    for x in fv:
        for y in fv:
            if x != y: ctx.add_base(ctx.z(lam) > fv[x] - fv[y])
    fe = [a for a in allx if holds(cons, a, spin)]
    assert fe, 'menu must be feasible'
    T = qv.PCSO if spin else qv.PCBO

    def run():
        with warnings.catch_warnings():
            warnings.simplefilter('ignore')
            H = T({k: cs[k] for k in U})
            for kind, P, lt in cons:
                if kind in GATES or kind.startswith('eq_') and kind != 'eq': getattr(H, 'add_constraint_' + kind)(*P, lam=lam)
                elif kind == 'eq': H.add_constraint_eq_zero(dict(P), lam=lam)
                else: getattr(H, 'add_constraint_%s_zero' % kind)(dict(P), lam=lam, log_trick=lt)
            hv = sorted(H.variables, key=str)
            if form == 'H':
                return H, H, hv, None, None
            if form == 'solve_bruteforce':
                if len(hv) > 5:
                    return H, None, hv, 'toolarge', None
                sol = H.solve_bruteforce()
                return H, None, hv, sol, H.remove_ancilla_from_solution(sol)
            D = getattr(H, form)()
            return H, D, hv, None, None

    def check(res):
        H, D, hv, sol, sol_noanc = res
        obs = []
        key = lambda x: tuple(x[l] for l in labs)
        fmin = [z3.And([fv[key(x)] <= fv[key(y)] for y in fe]) for x in fe]
        if form == 'solve_bruteforce':
            if sol == 'toolarge':
                return [Ob('OUTSIDE-BOUND: more than 5 variables for symbolic solve_bruteforce', True)]
            obs.append(Ob('solve_bruteforce assigns all variables of the model', isinstance(sol, dict) and set(sol) == set(hv), info={'sol': repr(sol)[:200]}))
            if not isinstance(sol, dict): return obs
            x = {l: sol.get(l, 1 if spin else 0) for l in labs}
            obs.append(Ob('solve_bruteforce result is feasible', holds(cons, x, spin), info={'sol': repr(sol)}))
            obs.append(Ob('solve_bruteforce result minimises f over feasible assignments', z3.And([fv[key(x)] <= fv[key(y)] for y in fe]), info={'sol': repr(sol)}))
            want = {k: v for k, v in sol.items() if not (isinstance(k, str) and k.startswith('__a'))}
            obs.append(Ob('remove_ancilla_from_solution returns exactly the non-ancilla part', sol_noanc == want, info={'got': repr(sol_noanc), 'want': repr(want)}))
            return obs
        tspin = spin if form == 'H' else form in ('to_quso', 'to_puso')
        if form == 'H':
            dl = hv
        else:
            n = H.num_binary_variables
            dl = sorted({i for k in D for i in k} | set(range(n)))
        if len(dl) > 9:
            return [Ob('OUTSIDE-BOUND: more than 9 variables in the target form', True, info={'n': len(dl)})]
        alls = list(O.assigns(dl, tspin))
        E = [ctx.z(O.val_poly(D, a, tspin)) for a in alls]
        # one auxiliary real m with m <= all E  encodes "s is a minimiser": E[s] <= m
        m = z3.Real('m!min')
        lower = z3.And([m <= e for e in E])
        bad = []
        for a, e in zip(alls, E):
            if form == 'H':
                conv = a
            else:
                conv = H.convert_solution(dict(a), spin=tspin)
            # a label whose terms vanished on this path is absent from the model: f and the constraints do not depend on it here
            x = {l: conv.get(l, 1 if spin else 0) for l in labs}
            if holds(cons, x, spin):
                good = z3.And(e == fv[key(x)], z3.And([fv[key(x)] <= fv[key(y)] for y in fe]))
                bad.append(z3.And(e <= m, z3.Not(good)))
            else:
                bad.append(e <= m)
        # "exists m, s: m is a lower bound of all energies, E[s] <= m, and s is not a feasible optimal assignment with E = f"
        obs.append(Ob('every minimiser of %s converts to a feasible f-optimal assignment and the minimum equals the constrained optimum' % form,
                      z3.Not(z3.And(lower, z3.Or(bad))), sig='minimisers of ' + form))
        obs.append(Ob('twin: some assignment of %s is not a minimiser' % form, z3.Or([e > E[0] for e in E[1:]] + [E[0] > E[1]]) if len(E) > 1 else False, expect_sat=True))
        return obs
    return run, check


def make_remove_ancilla(ctx, spin):
    """remove_ancilla_from_solution returns exactly the non-ancilla part: ancillas are the labels the library itself creates ('__a<k>')"""
    import qubovert as qv
    T = qv.PCSO if spin else qv.PCBO
    k = ctx.int_var('k', 0, 3)
    user = ['x', 'slot__a', 'a__a0', '_a1', ('__a0',), 0, 7, ('x', '__a'), 'A__a', '__b0', 'y__']

    def run():
        n = int(k)
        H = T()
        H.add_constraint_lt_zero({('x',): 1, ('slot__a',): 1, ('a__a0',): 1 + n, (): -2 - n}, lam=1)
        anc = [v for v in H.variables if isinstance(v, str) and v.startswith('__a') and v[3:].isdigit()] or ['__a0', '__a1', '__a10']
        sol = {l: (1 if (i % 2) else (-1 if spin else 0)) for i, l in enumerate(user + anc)}
        out_i = H.remove_ancilla_from_solution(dict(sol))
        out_c = T.remove_ancilla_from_solution(dict(sol))
        return sol, anc, out_i, out_c

    def check(res):
        sol, anc, out_i, out_c = res
        want = {l: v for l, v in sol.items() if l not in anc}
        return [Ob('remove_ancilla_from_solution (instance) keeps exactly the non-ancilla labels', out_i == want, info={'dropped': sorted(map(repr, set(want) - set(out_i))), 'kept_ancillas': sorted(set(out_i) & set(anc))}),
                Ob('remove_ancilla_from_solution (classmethod) keeps exactly the non-ancilla labels', out_c == want, info={'dropped': sorted(map(repr, set(want) - set(out_c)))}),
                ]
    return run, check


def jobs(tier, seed):
    J = []
    for sp in (False, True):
        J.append(dict(name='remove_ancilla/%s' % ('spin' if sp else 'bool'), sig='remove_ancilla', module='vq.props.c08', make='make_remove_ancilla', args=dict(spin=sp), budget_s=120))
    def add(spin, menu, form, U=None, budget=400):
        J.append(dict(name='%s/%s/%s%s' % ('spin' if spin else 'bool', menu, form, '/U=' + ','.join(''.join(x[1:] for x in k) for k in U) if U else ''), sig='%s/%s' % ('spin' if spin else 'bool', form), module='vq.props.c08', make='make_flow',
                      args=dict(spin=spin, menu=menu, form=form, U=U), budget_s=budget if tier == 'quick' else 2400, final_timeout_ms=120000))
    if tier == 'quick':
        forms = ['H', 'to_qubo', 'to_quso', 'solve_bruteforce']
        mb = ['le_sum', 'eq+ne', 'gt_nolog', 'AND+lt', 'OR+eqAND', 'lt+le', 'le_deep_nolog', 'eqOR3', 'eqNOR3+NAND', 'eqXOR+NOR', 'ne_lopsided', 'eq_zxy', 'eq_z-xy']
        ms = ['le_sum', 'eq', 'gt+ge', 'gt+le', 'le_deep_nolog', 'ne_lopsided', 'eq_zxy']
    else:
        forms = ['H', 'to_qubo', 'to_quso', 'to_pubo', 'to_puso', 'solve_bruteforce']
        mb, ms = list(MENU_B), list(MENU_S)
    for menu in mb:
        for form in forms:
            add(False, menu, form)
    for menu in ms:
        for form in forms:
            add(True, menu, form)
    # objective with a cubic term (forces degree reduction on top of the constraints)
    U2 = [['x0'], ['x1', 'x2'], ['x0', 'x1', 'x2']]
    # two cubic terms sharing a pair: the reduction re-uses an ancilla
    U3 = [['x0', 'x1', 'x2'], ['x0', 'x1', 'x3'], ['x2'], ['x3']]
    for form in (['to_qubo'] if tier == 'quick' else ['to_qubo', 'to_quso', 'to_pubo']):
        add(False, 'le_pair', form, U=U3)
    for form in (['to_qubo', 'to_quso'] if tier == 'quick' else forms):
        add(False, 'le_sum', form, U=U2)
        add(False, 'eq+ne', form, U=U2)
        add(True, 'eq', form, U=U2)
    return J
