"""C17 -- the C annealing kernels are memory-safe on every valid call."""
import itertools
import json
import os
import shutil
import subprocess
import sys
import tempfile

import z3

from ..core import Ob, REPO
from .. import oracle as O
from .. import irsym

LEVEL = 'model_checking'
ENGINE = 'symx+irsym'
TECHNIQUE = 'bounded symbolic interpretation of the LLVM IR of _canneal.c and the kernels with a bounds-, initialisation-, lifetime- and overflow-checked memory model, driven through the real Python front end; findings replayed under valgrind on a fresh native build'
LEVEL_TEXT = ('Bounded memory-safety: on every feasible path (symbolic integer couplings, temperatures from the schedule, arbitrary uniform draws / visited indices, every array shape the real Python front end produces for the '
              'enumerated models) every load/store is in bounds of a live, initialised object of the right width, frees are well-formed, nothing leaks, no nsw arithmetic overflows and no unreachable is executed. '
              '"Later calls unaffected" follows from the IR fact that the extension references no writable global. Allocation failure and CPython internals are outside the claim.')
ASSUMPTIONS = [
    'array *shapes* are those the real Python front end produces for the enumerated models/schedules; array *contents* (couplings as symbolic integers, draws, random initial spins, visited indices) are symbolic',
    'CPython API stubs model list/long/float objects with concrete lengths; PyList_GetItem out of range and a NULL item are reported as errors; malloc is assumed to succeed',
    'integers are mathematical with a range check on every nsw operation, sext/trunc and "i" argument; doubles are exact reals (integer couplings)',
    'the IR is clang -O0 of the working-tree sources: one alloca per C variable, i.e. the C abstract machine rather than an optimised program',
]
STUBS = ['CPython list/long/float API', 'rand_init/rand_double/rand_int/exp', 'malloc/realloc/free (checked heap model)']
OUTSIDE = ['sizes beyond the bounds (in particular num_anneals*len_state overflowing int)', 'malloc failure', 'non-list arguments to the private extension functions', 'CPython internals', 'N > 4']
BOUNDS = {'quick': {'models': 'see CASES_Q (graphs on <= 4 spins incl. isolated spins, index gaps, single variable, no couplings, stale variables, high-degree terms)', 'num_anneals': [1, 2], 'schedules': ['[]', '[0]', '[T]', '[T,0]']},
          'thorough': {'models': 'all graphs on 3 spins and a sample on 4, puso term sets with <= 4 terms of degree <= 4'}}

CASES_Q = [
    ('quso', 'QUSOMatrix', [(0,)], 1, 'T0', 'up', 1, None),                                 # single variable
    ('quso', 'QUSOMatrix', [(0,)], 2, 'T1', None, 0, None),
    ('quso', 'QUSOMatrix', [(0, 1)], 2, 'T0', 'mixed', 1, None),                            # initial state + 2 anneals
    ('quso', 'QUSOMatrix', [(0, 1)], 2, 'T1', None, 1, None),
    ('quso', 'QUSOMatrix', [(0,), (0, 3)], 2, 'T10', 'up', 1, None),                        # gaps 1,2
    ('quso', 'QUSOMatrix', [(3,)], 1, 'T1', 'up', 0, None),                                 # only the last index used, no couplings
    ('quso', 'QUSO', [('a',), ('b',)], 1, 'T1', None, 1, None),                             # no couplings
    ('quso', 'QUSO', [('a', 'b'), ('b', 'c'), ('a', 'c')], 1, 'T0', 'mixed', 0, None),
    ('quso', 'QUSO', [('a', 'b')], 1, 'empty', None, 1, None),
    ('quso', 'QUSO', [('a', 'b')], 2, 'empty', 'up', 1, None),
    ('quso', 'QUSO', [('a', 'b')], 1, 'T1', 'up', 1, 'cancelled-variable'),
    ('quso', 'QUSO', [('a', 'b')], 1, 'T1', None, 1, 'all-cancelled'),
    ('quso', 'QUSO', [('a', 'b')], 2, 'T0', 'up', 1, 'all-cancelled'),
    ('quso', 'QUSOMatrix', [()], 2, 'T1', None, 1, None),
    ('puso', 'PUSOMatrix', [(0,)], 1, 'T0', 'up', 1, None),
    ('puso', 'PUSOMatrix', [(0, 1, 2)], 2, 'T0', 'mixed', 1, None),
    ('puso', 'PUSOMatrix', [(0, 1, 3), (1, 3, 5)], 1, 'T1', 'mixed', 1, None),
    ('puso', 'PUSOMatrix', [(0, 2)], 1, 'T1', None, 1, None),                 # gaps: isolated variables 2 and 4
    ('puso', 'PUSOMatrix', [(0, 1, 3), (1, 3, 5)], 2, 'T0', 'up', 1, None),
    ('puso', 'PUSOMatrix', [(0, 2), (2,)], 1, 'T0', 'up', 0, None),
    ('puso', 'PUSO', [('a', 'b', 'c', 'd'), ('a',)], 1, 'T10', None, 1, None),              # high degree
    ('puso', 'PUSO', [('a', 'b', 'c')], 1, 'T1', None, 1, 'cancelled-variable'),            # a variable in no term
    ('puso', 'PUSO', [('a',)], 1, 'T1', None, 1, 'all-cancelled'),                          # variables but no non-constant term
    ('puso', 'PUSO', [('a',)], 2, 'T10', 'up', 1, 'all-cancelled'),
    ('puso', 'PUSO', [('a', 'b', 'c')], 1, 'empty', None, 1, None),
    ('puso', 'PUSO', [('a', 'b', 'c')], 2, 'empty', 'mixed', 1, None),
    ('puso', 'PUSOMatrix', [()], 1, 'T1', None, 1, None),
    ('puso', 'PCSO', [('a', 'b', 'c'), ()], 2, 'T0', 'down', 1, None),
    ('qubo', 'QUBOMatrix', [(0,), (0, 2)], 2, 'T0', 'mixed', 1, None),
    ('qubo', 'QUBO', [('a', 'b')], 1, 'T1', None, 0, None),
    ('pubo', 'PUBOMatrix', [(0, 1, 2), (4,)], 2, 'T0', 'up', 1, None),
    ('pubo', 'PUBO', [('a', 'b', 'c')], 1, 'T1', None, 1, 'cancelled-variable'),
]


def _graphs(n):
    pairs = list(itertools.combinations(range(n), 2))
    for r in range(len(pairs) + 1):
        for es in itertools.combinations(pairs, r):
            yield list(es)


def cases(tier):
    C = list(CASES_Q)
    if tier != 'quick':
        for es in _graphs(3):
            for fields in ([], [(0,)], [(2,)]):
                keys = fields + es
                if not keys: continue
                C.append(('quso', 'QUSOMatrix', keys, 2, 'T0', 'mixed', 1, None))
                C.append(('quso', 'QUSOMatrix', keys, 1, 'T1', None, 0, None))
        for es in list(_graphs(4))[::5]:
            if es: C.append(('quso', 'QUSOMatrix', es, 1, 'T10', 'up', 1, None))
        T3 = [(0, 1, 2), (0, 1), (2,), (0, 2, 3), (1, 2, 3, 4), (3,)]
        for r in (1, 2, 3, 4):
            for ts in list(itertools.combinations(T3, r))[::2]:
                C.append(('puso', 'PUSOMatrix', list(ts), 2, 'T0', 'mixed', 1, None))
                C.append(('puso', 'PUSOMatrix', list(ts), 1, 'T1', None, 0, None))
    return C


def make_facts(ctx):
    texts = [irsym.wrapper_module()] + irsym.kernel_modules() + [irsym.random_module()]
    d = ctx.int_var('dummy', 0, 0)

    def run():
        f = irsym.module_facts(texts)
        return f['writable_globals'], sorted(irsym.reachable(f['callgraph'], ['c_anneal_quso', 'c_anneal_puso']) & set(f['declared'])), f['callgraph']

    def check(res):
        wg, ext, cg = res
        import re as _re
        # stack use must not grow with the input: the bounded runs (N <= 4) cannot see a stack overflow that needs 10^6 spins
        vla = []
        for t in texts:
            for line in t.splitlines():
                if _re.search(r'=\s*alloca\s+[^,]+,\s*i(32|64)\s+%', line):
                    vla.append(line.strip()[:100])
        defined = set(cg)
        rec = sorted(fn for fn in defined if fn in irsym.reachable(cg, [c for c in cg.get(fn, ()) if c in defined]))
        # the module definition tables of _canneal.c are written only by CPython at import; the C code under test never stores to a global
        stores_to_globals = []
        for t in texts:
            for line in t.splitlines():
                if line.strip().startswith('store ') and ' @' in line.split(',')[1]:
                    stores_to_globals.append(line.strip()[:100])
        return [Ob('no instruction of the extension stores to a global (calls cannot affect later calls through C state)', not stores_to_globals, info={'stores': stores_to_globals[:3]}),
                Ob('no variable-length stack allocation in the extension (stack use independent of the input size)', not vla, info={'alloca': vla[:3]}),
                Ob('no recursion among the extension\'s functions (stack depth independent of the input)', not rec, info={'recursive': rec[:5]}),
                Ob('writable globals are only the CPython module tables / docstrings', all(('Module' in g or 'Methods' in g or 'docstring' in g or '_name' in g) for g in wg), info={'globals': wg})]
    return run, check


def jobs(tier, seed):
    J = [dict(name='facts', sig='facts', module='vq.props.c17', make='make_facts', args={}, budget_s=120, witness_all=0, witness_rate=0)]
    for i, (kind, mtype, keys, na, sched, init, io, stale) in enumerate(cases(tier)):
        name = '%03d/%s/%s/%s/n=%d/%s/init=%s/order=%d%s' % (i, kind, mtype, ','.join(''.join(map(str, k)) or '-' for k in keys), na, sched, init, io, '/' + stale if stale else '')
        J.append(dict(name=name, sig='%s/%s%s' % (kind, mtype, '/' + stale if stale else ''), module='vq.props.pipeline', make='make_pipeline',
                      args=dict(prop='C17', kind=kind, mtype=mtype, keys=[list(k) for k in keys], num_anneals=na, sched=sched, init=init, in_order=io, stale=stale),
                      budget_s=300 if tier == 'quick' else 1800, witness_all=0, witness_rate=0, max_cex=6))
    return J


# ---------------------------------------------------------------- replay of a finding on a fresh native build under valgrind
RUNNER = r'''
import sys, json, warnings
warnings.simplefilter('ignore')
spec = json.load(open(sys.argv[1]))
import qubovert as qv
from qubovert.utils import QUBOMatrix, PUBOMatrix, QUSOMatrix, PUSOMatrix
import qubovert.sim as sim
assert qv.__file__.startswith(sys.argv[2]), qv.__file__
a = spec['args']; vals = spec['values']
TY = dict(QUBO=qv.QUBO, PUBO=qv.PUBO, PCBO=qv.PCBO, QUSO=qv.QUSO, PUSO=qv.PUSO, PCSO=qv.PCSO, QUBOMatrix=QUBOMatrix, PUBOMatrix=PUBOMatrix, QUSOMatrix=QUSOMatrix, PUSOMatrix=PUSOMatrix, dict=dict)
keys = [tuple(k) for k in a['keys']]
from fractions import Fraction
M = TY[a['mtype']]({k: int(Fraction(vals.get('c%d' % i, '1'))) or 1 for i, k in enumerate(keys)})
stale = a.get('stale')
if stale == 'cancelled-variable' and hasattr(M, 'refresh'):
    extra = (max([i for k in keys for i in k] + [0]) + 1,) if a['mtype'].endswith('Matrix') else ('stale',)
    M[extra] += 1; M[extra] -= 1
if stale == 'all-cancelled' and hasattr(M, 'refresh'):
    for k in list(M): M[k] -= M[k]
boolean = a['kind'] in ('qubo', 'pubo')
if a['mtype'].endswith('Matrix'):
    vars_ = set(range(M.max_index + 1)) if M.max_index is not None else set()
elif a['mtype'] == 'dict':
    vars_ = {i for k in keys for i in k}
else:
    vars_ = set(M.variables)
up, dn = (0, 1) if boolean else (1, -1)
vl = sorted(vars_, key=repr)
init = {None: None, 'up': {v: up for v in vl}, 'down': {v: dn for v in vl}, 'mixed': {v: (up if i % 2 == 0 else dn) for i, v in enumerate(vl)}}[a['init']]
SCH = __SCHEDULES__
sc = SCH[a['sched']]
kw = dict(num_anneals=a['num_anneals'], initial_state=init, in_order=a['in_order'], seed=3)
if isinstance(sc, (tuple, list)) and len(sc) == 2 and isinstance(sc[0], str):
    kw.update(schedule=sc[0], anneal_duration=sc[1])
else:
    kw['schedule'] = list(sc)
fn = getattr(sim, 'anneal_' + a['kind'])
for rep in range(2):
    res = fn(M, **kw)
    [ (r.state, r.value) for r in res ]
print('RUNNER-DONE')
'''


def replay(cex):
    """rebuild the extension from the current sources in a private directory and drive the public API under valgrind"""
    from .pipeline import SCHEDULES
    from ..core import replay_cex
    if cex['spec']['make'] != 'make_pipeline' or not cex['sig'].startswith('UB'):
        return replay_cex(cex)
    tmp = tempfile.mkdtemp(prefix='vq_c17_')
    try:
        shutil.copytree(os.path.join(REPO, 'qubovert'), os.path.join(tmp, 'qubovert'), ignore=shutil.ignore_patterns('*.so', '__pycache__'))
        for f in ('setup.py', 'README.rst', 'requirements.txt'):
            shutil.copy(os.path.join(REPO, f), tmp)
        b = subprocess.run(['/venv/bin/python', 'setup.py', 'build_ext', '--inplace'], cwd=tmp, capture_output=True, text=True)
        if b.returncode != 0:
            return False, 'native build failed: ' + b.stderr[-300:]
        specf = os.path.join(tmp, 'spec.json')
        json.dump(dict(args=cex['spec']['args'], values=cex['values']), open(specf, 'w'))
        runner = os.path.join(tmp, 'runner.py')
        open(runner, 'w').write(RUNNER.replace('__SCHEDULES__', repr(SCHEDULES)))
        env = dict(os.environ, PYTHONPATH=tmp, PYTHONMALLOC='malloc', PYTHONDONTWRITEBYTECODE='1')
        r = subprocess.run(['valgrind', '-q', '--error-exitcode=9', '--errors-for-leak-kinds=none', '--leak-check=no', '/venv/bin/python', runner, specf, tmp],
                           capture_output=True, text=True, env=env, cwd=tmp, timeout=900)
        # keep only valgrind error blocks with a frame inside the extension (the dynamic loader and CPython produce unrelated noise)
        blocks, cur = [], []
        for l in r.stderr.splitlines():
            body = l.split('== ', 1)[1] if '== ' in l else ''
            if l.startswith('==') and not body.strip():
                if cur: blocks.append(cur)
                cur = []
            elif l.startswith('=='):
                cur.append(body)
        if cur: blocks.append(cur)
        rel = [b for b in blocks if any(('_canneal' in x or 'anneal_quso' in x or 'anneal_puso' in x or 'single_anneal' in x or 'puso_' in x or 'quso_' in x) for x in b)
               and any(k in b[0] for k in ('Invalid', 'uninitialised', 'Mismatched', 'overlap', 'Process terminating', 'Jump to the invalid'))]
        crashed = r.returncode < 0 or 'RUNNER-DONE' not in r.stdout
        if rel or (crashed and r.returncode != 1):
            desc = ' | '.join('%s @ %s' % (b[0], next((x.strip() for x in b[1:] if 'anneal' in x), '?')) for b in rel[:3])
            return True, 'valgrind on a fresh native build of the working-tree sources (public API, 2 calls): %s%s' % (desc[:500], ' [process crashed, exit %d]' % r.returncode if crashed else '')
        return False, 'valgrind reported no error inside the extension on the native build (exit %d, %s); interpreter finding: %s' % (r.returncode, r.stdout[-40:].strip(), cex.get('info'))
    finally:
        shutil.rmtree(tmp, ignore_errors=True)
