"""C16 -- symbolic (sympy) weights commute with substitution."""
import itertools
import warnings
from fractions import Fraction

import z3

from ..core import Ob
from ..symx import Sym, to_poly, padd, Ctx
from .. import oracle as O

LEVEL = 'translation_validation'
TECHNIQUE = 'differential of two executions of the same build per feasible path: numeric-symbolic (solver-quantified weight c and inputs) vs sympy-symbolic; coefficientwise polynomial identity in c'
ASSUMPTIONS = [
    'two executions of the same build are compared per feasible path of the numeric one: (N) weight := solver real c > 0 with symbolic integer inputs; (S) weight := sympy.Symbol with the inputs set to the solver\'s witness of that path (one representative per path)',
    'every coefficient of (S), read as a polynomial in the symbol, must be identical to the (N) coefficient with the representative inputs substituted -- i.e. equal for all c on that path; then subs() is compared with the direct numeric build at c0 in {1, 2, 1/2, and a dyadic c0 chosen by the solver so that some coefficient vanishes, when one exists}',
    'values are compared exactly: sympy Floats/Rationals are converted to exact rationals (inputs are integers and c0 dyadic, so no rounding occurs)',
]
OUTSIDE = ['symbols inside constraint polynomials or bounds', 'non-dyadic substituted values (float rounding on the sympy side)', 'more than one representative numeric input per path']
BOUNDS = {'quick': {'constraint polynomial': 'dense over 2 labels, integer coefficients in [-2,2] (PCSO: [-1,1])', 'methods': 'all 6 comparison methods (PCBO, PCSO; log_trick both), 16 logical methods, to_qubo/to_quso/to_pubo/to_puso with lam=Symbol'},
          'thorough': {'constraint polynomial': 'B=3 and 3 labels'}}


def exact(v):
    """sympy / python number -> Fraction (exact), or None if it still contains symbols"""
    import sympy
    if isinstance(v, (int, Fraction)): return Fraction(v)
    if isinstance(v, float): return Fraction(v)
    v = sympy.sympify(v)
    if v.free_symbols: return None
    if v.is_Rational: return Fraction(int(v.p), int(v.q))
    if v.is_Float: return Fraction(float(v)) if abs(float(v)) < 2 ** 52 else None
    v2 = sympy.nsimplify(v)
    if v2.is_Rational: return Fraction(int(v2.p), int(v2.q))
    return None


def sym_univariate(v, lam):
    """sympy expression -> {degree: Fraction} in lam"""
    import sympy
    try:
        pol = sympy.Poly(sympy.sympify(v), lam)
    except sympy.PolynomialError:
        return None
    out = {}
    for (d,), co in pol.terms():
        f = exact(co)
        if f is None: return None
        if f: out[d] = f
    return out


def is_float(v):
    import sympy
    if isinstance(v, float): return True
    try:
        return bool(sympy.sympify(v).atoms(sympy.Float))
    except Exception:       # noqa
        return False


def same_number(x, y):
    """exact equality of two numbers; where the library itself produced a binary float (e.g. int/2 -> 0.5 times a
    non-dyadic weight) equality up to float rounding (1e-9 relative) -- rounding is outside every claim"""
    a, b = exact(x), exact(y)
    if a is None or b is None: return False
    if a == b: return True
    if is_float(x) or is_float(y):
        return abs(a - b) <= Fraction(1, 10 ** 9) * max(1, abs(a), abs(b))
    return False


def models_equal_exact(A, B):
    """dict models with possibly sympy / Q values: same keys (canonical) and exactly equal values"""
    if set(A) != set(B): return False, 'key sets differ: %s vs %s' % (sorted(map(repr, set(A) - set(B)))[:3], sorted(map(repr, set(B) - set(A)))[:3])
    for k in A:
        if not same_number(A[k], B[k]):
            return False, 'value at %r: %r vs %r' % (k, A[k], B[k])
    return True, ''


def constraints_equal_exact(ca, cb):
    if set(ca) != set(cb) or any(len(ca[k]) != len(cb[k]) for k in ca):
        return False, 'constraint kinds/counts differ: %s vs %s' % ({k: len(v) for k, v in ca.items()}, {k: len(v) for k, v in cb.items()})
    for k in ca:
        for x, y in zip(ca[k], cb[k]):
            ok, why = models_equal_exact(x, y)
            if not ok: return False, 'constraint %s: %s' % (k, why)
    return True, ''


def differential(ctx, build, inputs, cvar, cname, obs, what, plain_symbol=False):
    """build(values_dict, weight) -> model.  inputs: dict name -> Sym|number (the (N)-side objects); cvar: the (N)-side weight"""
    import sympy
    symbolic = ctx.concrete is None
    # the weight is positive in every claim; with plain_symbol the sympy symbol carries no such assumption (sympy cannot decide its sign)
    lam = sympy.Symbol('lam') if plain_symbol else sympy.Symbol('lam', positive=True)
    HN = build(inputs, cvar)
    if symbolic:
        w = ctx.witness(ctx.pc_of_current)
        if w is None:
            obs.append(Ob('OUTSIDE-BOUND: no witness obtained for this path within the solver time limit (%s)' % what, True)); return
        rep = {n: (int(w[n]) if w[n].denominator == 1 else w[n]) for n in inputs}
        cidx = ctx.byname[cname]
    else:
        rep = dict(inputs)
    with warnings.catch_warnings():
        warnings.simplefilter('ignore')
        HS = build(rep, lam)
    snap_S = {k: sympy.sympify(v) for k, v in HS.items()}
    obs.append(Ob('%s: same type with symbol and with number' % what, type(HS) is type(HN), info={'S': type(HS).__name__, 'N': type(HN).__name__}))
    # coefficientwise identity: for every key the (N) coefficient and the (S) coefficient agree for all weights c on this path
    # (inputs fixed to the representative)
    import sympy as _sp
    conj, first_bad, nonpoly = [], None, []
    if symbolic:
        cz = ctx.zvars[cidx]
        pin = z3.And([ctx.zvars[ctx.byname[n]] == z3.RealVal(rep[n].numerator if isinstance(rep[n], Fraction) else rep[n]) /
                      z3.RealVal(rep[n].denominator if isinstance(rep[n], Fraction) else 1) for n in inputs])
        for k in sorted(set(HS) | set(HN), key=repr):
            pn = to_poly(HN[k]) if k in HN else {}
            uni = {}
            for mono, co in pn.items():
                deg = 0; val = co
                for i in mono:
                    if i == cidx: deg += 1
                    else: val *= w[ctx.names[i]]
                uni[deg] = uni.get(deg, 0) + val
            sy = sym_univariate(HS[k], lam) if k in HS else {}
            if sy is None:
                # e.g. 1 + Abs(lam - 4) from the default penalty: not a polynomial in the symbol; this coefficient is compared at the
                # substituted weights below (including the solver-chosen one), not for all weights
                nonpoly.append(repr(k)); continue
            diff = {d: uni.get(d, 0) - sy.get(d, 0) for d in set(uni) | set(sy)}
            diff = {d: v for d, v in diff.items() if v}
            if diff:
                term = z3.Sum([(z3.RealVal(v.numerator) / z3.RealVal(v.denominator)) * (cz ** d if d else z3.RealVal(1)) for d, v in diff.items()])
                conj.append(term == 0)
                first_bad = first_bad or (repr(k), {d: str(v) for d, v in diff.items()})
        formula = z3.Implies(pin, z3.And(conj)) if conj else True
    else:
        ok = True
        for k in set(HS) | set(HN):
            a = HN[k] if k in HN else 0
            b = _sp.sympify(HS[k]).subs({lam: _sp.Rational(Fraction(cvar).numerator, Fraction(cvar).denominator)}) if k in HS else 0
            if not same_number(a, b):
                ok = False; first_bad = (repr(k), str(a), str(b))
        formula = ok
    obs.append(Ob('%s: every coefficient agrees for all weights on the path' % what, formula, info={'first_difference': first_bad, 'rep': {k: str(v) for k, v in rep.items()},
                                                                                                          'non_polynomial_coefficients_compared_at_sampled_weights_only': nonpoly[:5]},
                  sig='%s: coefficient polynomials' % what))
    special = Fraction(3, 4)
    if symbolic:
        # a dyadic c0 > 0 at which some (N) coefficient vanishes, if the path allows one
        s = z3.Solver(); s.set('timeout', 5000)
        c0 = z3.Real('c0!'); s.add(c0 > 0, c0 * 64 == z3.ToReal(z3.Int('c0i!')))
        alts = []
        for k, v in HN.items():
            pn = to_poly(v); tot = z3.RealVal(0); nontriv = False
            for mono, co in pn.items():
                t = z3.RealVal(co.numerator) / z3.RealVal(co.denominator)
                for i in mono:
                    if i == cidx: t = t * c0; nontriv = True
                    else: t = t * z3.RealVal(w[ctx.names[i]].numerator) / z3.RealVal(w[ctx.names[i]].denominator)
                tot = tot + t
            if nontriv: alts.append(tot == 0)
        if alts:
            s.add(z3.Or(alts))
            if s.check() == z3.sat:
                from ..symx import z3val_to_frac
                special = z3val_to_frac(s.model().eval(c0))
    else:
        special = Fraction(cvar)
    cands = [('1', Fraction(1)), ('2', Fraction(2)), ('1/2', Fraction(1, 2)), ('solver-chosen value', special)]
    for ci, (cname_, cv) in enumerate(cands):
        from ..symx import Q
        # the direct numeric build gets the kind of number a user would pass: int when integral, float when dyadic, exact rational otherwise
        if cv.denominator == 1: cnum = int(cv)
        elif (cv.denominator & (cv.denominator - 1)) == 0 and abs(cv) < 2 ** 30: cnum = float(cv)
        else: cnum = Q(cv)
        with warnings.catch_warnings():
            warnings.simplefilter('ignore')
            HD = build(rep, cnum)
            # the three calling conventions of sympy's subs: mapping, (old, new), sequence of pairs
            cval = sympy.Rational(cv.numerator, cv.denominator)
            HSs = [lambda: HS.subs({lam: cval}), lambda: HS.subs(lam, cval), lambda: HS.subs([(lam, cval)])][ci % 3]()
        ok, why = models_equal_exact(HSs, HD)
        obs.append(Ob('%s: subs(lam -> %s) equals the model built with the number' % (what, cname_), ok, info={'why': why, 'value': str(cv), 'rep': {k: str(v) for k, v in rep.items()}},
                      sig='%s: subs equals numeric build' % what))
        obs.append(Ob('%s: subs(lam -> %s) keeps the type' % (what, cname_), type(HSs) is type(HD), sig='%s: subs type' % what))
        if hasattr(HD, 'constraints'):
            ok, why = constraints_equal_exact(HSs.constraints, HD.constraints)
            obs.append(Ob('%s: subs(lam -> %s) has the same recorded constraints' % (what, cname_), ok, info={'why': why}, sig='%s: subs constraints' % what))
    obs.append(Ob('%s: subs leaves the symbolic model unchanged' % what, {k: sympy.sympify(v) for k, v in HS.items()} == snap_S and set(HS) == set(snap_S),
                  sig='%s: subs mutates' % what))
    if hasattr(HS, 'constraints'):
        # history: the substituted model gets a further constraint; the symbolic original must not see it (and vice versa)
        cons0 = {k: [dict(x) for x in v] for k, v in HS.constraints.items()}
        with warnings.catch_warnings():
            warnings.simplefilter('ignore')
            G = HS.subs({lam: 2})
            G.add_constraint_eq_zero({('zz1',): 1, ('zz2',): -1}, lam=0)
            G.add_constraint_lt_zero({('zz1',): 1, (): -1}, lam=0)
        cons1 = {k: [dict(x) for x in v] for k, v in HS.constraints.items()}
        obs.append(Ob('%s: constraints added to the substituted model do not appear in the symbolic original' % what, cons0 == cons1,
                      info={'before': {k: len(v) for k, v in cons0.items()}, 'after': {k: len(v) for k, v in cons1.items()}}, sig='%s: subs result shares constraints' % what))
        G2 = HS.subs({lam: 3})
        with warnings.catch_warnings():
            warnings.simplefilter('ignore')
            HS.add_constraint_ne_zero({('zz3',): 1}, lam=0)
        obs.append(Ob('%s: constraints added to the symbolic original afterwards do not appear in an earlier subs result' % what,
                      'ne' not in G2.constraints or len(G2.constraints['ne']) == len(cons0.get('ne', [])), sig='%s: subs result shares constraints' % what))


def make_cmp(ctx, rel, B, log, spin, n=2, where='weight'):
    import qubovert as qv
    labels = O.LABEL_POOL[:n]
    U = O.universe(labels, n)
    names = ['c%d' % i for i in range(len(U))]
    cs = {nm: ctx.int_var(nm, -B, B) for nm in names}
    c = ctx.real_var('w', 0, lo_strict=True)
    T = qv.PCSO if spin else qv.PCBO

    def build(vals, weight):
        kw = {} if rel == 'eq' else {'log_trick': log}
        if where == 'coefficient':
            # the symbol is a coefficient of the constraint polynomial (explicit bounds are then required); the penalty weight is a number
            P = {k: vals[nm] for k, nm in zip(U, names)}
            P[(labels[0],)] = weight
            return getattr(T({(labels[1],): 1}), 'add_constraint_%s_zero' % rel)(P, lam=2, bounds=(-9, 9), **kw)
        return getattr(T(), 'add_constraint_%s_zero' % rel)({k: vals[nm] for k, nm in zip(U, names)}, lam=weight, **kw)

    def run():
        with warnings.catch_warnings():
            warnings.simplefilter('ignore')
            obs = []
            differential(ctx, build, cs, c, 'w', obs, 'add_constraint_%s_zero' % rel)
        return obs

    return run, (lambda obs: obs)


def make_logic(ctx, g, eq, arity):
    import qubovert as qv
    from qubovert import sat
    c = ctx.real_var('w', 0, lo_strict=True)
    dummy = {'d': ctx.int_var('d', 0, 1)}

    def build(vals, weight):
        ops = ['x0', sat.NOT('x1'), {('x2',): 1, ('x0', 'x2'): -1, ('x0',): 1}, 'x3', 'x1'][:arity]      # label, nested, {0,1}-valued polynomial (OR), ...
        H = qv.PCBO({('x0',): 3, ('x0', 'x3'): -1})
        if eq: return getattr(H, 'add_constraint_eq_' + g)('y', *ops, lam=weight)
        return getattr(H, 'add_constraint_' + g)(*ops, lam=weight)

    def run():
        obs = []
        with warnings.catch_warnings():
            warnings.simplefilter('ignore')
            differential(ctx, build, dummy, c, 'w', obs, 'add_constraint_%s%s/%d' % ('eq_' if eq else '', g, arity))
        return obs
    return run, (lambda obs: obs)


def make_reduce(ctx, kind, method, deg, copy=False, lam_mode='const', plain=False):
    import qubovert as qv
    labels = O.LABEL_POOL[:4]
    U = [(labels[0],), (labels[0], labels[1], labels[2]), (labels[1], labels[2], labels[3])] + ([tuple(labels)] if kind in ('PUBO', 'PCBO') else [])
    names = ['c%d' % i for i in range(len(U))]
    cs = {nm: ctx.int_var(nm, -1, 1) for nm in names}
    c = ctx.real_var('w', 0, lo_strict=True)
    T = getattr(qv, kind)

    def build(vals, weight):
        M = T({k: vals[nm] for k, nm in zip(U, names)})
        kw = {'lam': weight}
        if lam_mode == 'callable':
            kw = {'lam': (lambda v, w=weight: v * w)}          # penalty proportional to the reduced coefficient (callable, as in the library's own tests)
        if lam_mode == 'callable-abs':
            kw = {'lam': (lambda v, w=weight: abs(v) * w + w)}
        if method in ('to_pubo', 'to_puso'): kw['deg'] = deg
        R = getattr(M, method)(**kw)
        return R.copy() if copy else R

    def run():
        obs = []
        with warnings.catch_warnings():
            warnings.simplefilter('ignore')
            differential(ctx, build, cs, c, 'w', obs, '%s.%s(lam=%s)%s' % (kind, method, {'const': 'Symbol', 'callable': 'v -> v*Symbol', 'callable-abs': 'v -> |v|*Symbol+Symbol'}[lam_mode],
                                                                           '.copy()' if copy else ''), plain_symbol=plain)
        return obs
    return run, (lambda obs: obs)


def make_objective(ctx, spin, derive='scaled'):
    """a model with a numeric objective plus two weighted constraints (two different symbols are not needed: same symbol twice)"""
    import qubovert as qv
    names = ['f0', 'f1', 'f2']
    cs = {nm: ctx.int_var(nm, -2, 2) for nm in names}
    c = ctx.real_var('w', 0, lo_strict=True)
    T = qv.PCSO if spin else qv.PCBO

    def build(vals, weight):
        H = T({('a',): vals['f0'], ('a', 'b'): vals['f1'], (): vals['f2']})
        H.add_constraint_le_zero({('a',): 1, ('b',): 1, ('c',): 1, (): -2}, lam=weight)
        H.add_constraint_ne_zero({('a',): 1, ('c',): -1}, lam=2 * weight)
        if derive.startswith('symbolic-coefficient-then-default-reduction'):
            # a numeric objective on a cubic term plus a symbolic multiple of the same term, reduced with the *default* penalty;
            # every label first appears with a fixed numeric coefficient, so the label mapping does not depend on the weight
            H0 = T({('a',): 1, ('b',): 1, ('c',): 1, ('d',): 1})
            H0[('a', 'b', 'c')] += vals['f0'] - 4
            H0 += weight * T({('a', 'b', 'c'): 1, ('d',): 1})
            H0[('a', 'b')] += vals['f1']
            m = derive.split('/')[-1]
            return getattr(H0, m)() if m in ('to_qubo', 'to_quso') else getattr(H0, m)(deg=2)
        if derive == 'weight-times-model':
            G = T({('a',): vals['f0'], ('a', 'b'): vals['f1'], (): vals['f2']})
            G.add_constraint_le_zero({('a',): 1, ('b',): 1, ('c',): 1, (): -2}, lam=1)
            return weight * G + {('c',): 1}
        if derive == 'model-times-weight':
            G = T({('a',): vals['f0'], ('a', 'b'): vals['f1'], (): vals['f2']})
            G.add_constraint_ne_zero({('a',): 1, ('c',): -1}, lam=2)
            return G * weight
        if derive == 'copy': return H.copy()
        if derive == 'ctor': return T(H)
        if derive == 'plus-disjoint': return H + {('zz',): 1}
        if derive == 'minus-number-of-fresh-offset': return (H - H[()]) + 0
        if derive == 'refresh':
            H.refresh(); return H
        H2 = H.copy()
        H2 += {('c',): 1}
        return H2 * 1

    def run():
        obs = []
        with warnings.catch_warnings():
            warnings.simplefilter('ignore')
            differential(ctx, build, cs, c, 'w', obs, 'objective + constraints, derived by ' + derive)
        return obs
    return run, (lambda obs: obs)


def jobs(tier, seed):
    J = []
    def add(name, make, args, budget=400):
        J.append(dict(name=name, sig=name, module='vq.props.c16', make=make, args=args, budget_s=budget if tier == 'quick' else 2400, witness_all=10, witness_rate=0.02))
    for spin in (False, True):
        B = (2 if not spin else 1) if tier == 'quick' else (3 if not spin else 2)
        for rel in ['eq', 'ne', 'lt', 'le', 'gt', 'ge']:
            for log in ([True] if rel == 'eq' else [True, False]):
                add('%s/%s/log=%d/B%d' % ('PCSO' if spin else 'PCBO', rel, log, B), 'make_cmp', dict(rel=rel, B=B, log=log, spin=spin))
        # only `eq`: for the inequalities the numeric build recognises special forms by the *value* of a coefficient (e.g. unit coefficients),
        # which the symbolic build cannot, so the two legitimately differ as dicts when the symbol is a coefficient
        for rel in ['eq']:
            add('%s/%s/symbol-as-coefficient' % ('PCSO' if spin else 'PCBO', rel), 'make_cmp', dict(rel=rel, B=1, log=True, spin=spin, where='coefficient'))
        # (a family 'symbolic coefficient on a reduced term, default penalty' was tried and removed: the pair selection and label order of the
        #  reduction legitimately differ between the symbolic and the numeric build when a coefficient vanishes, so the two results are equal
        #  only up to relabelling of ancillas -- outside what this differential can compare; see DESIGN.md, seeded change C16-4A)
        for derive in ['scaled', 'copy', 'ctor', 'plus-disjoint', 'minus-number-of-fresh-offset', 'refresh', 'weight-times-model', 'model-times-weight']:
            add('objective/%s/%s' % ('PCSO' if spin else 'PCBO', derive), 'make_objective', dict(spin=spin, derive=derive))
    from .c06 import GATES, MIN_ARITY, MIN_ARITY_EQ
    for g in GATES:
        for eq in (False, True):
            lo = (MIN_ARITY_EQ if eq else MIN_ARITY)[g]
            ars = [1] if g in ('NOT', 'BUFFER') else sorted({lo, 3} | ({5} if tier != 'quick' else set()))
            for a in ars:
                add('logic/%s%s/%d' % ('eq_' if eq else '', g, a), 'make_logic', dict(g=g, eq=eq, arity=a))
    for kind in ('PUBO', 'PCBO', 'PUSO', 'PCSO'):
        for method, deg in (('to_qubo', 2), ('to_quso', 2), ('to_pubo', 3), ('to_puso', 3)):
            add('reduce/%s/%s' % (kind, method), 'make_reduce', dict(kind=kind, method=method, deg=deg))
            if kind in ('PUBO', 'PUSO'):
                add('reduce/%s/%s/copy' % (kind, method), 'make_reduce', dict(kind=kind, method=method, deg=deg, copy=True))
                add('reduce/%s/%s/callable' % (kind, method), 'make_reduce', dict(kind=kind, method=method, deg=deg, lam_mode='callable'))
                add('reduce/%s/%s/callable/plain-symbol' % (kind, method), 'make_reduce', dict(kind=kind, method=method, deg=deg, lam_mode='callable', plain=True))
                add('reduce/%s/%s/plain-symbol' % (kind, method), 'make_reduce', dict(kind=kind, method=method, deg=deg, plain=True))
                if method in ('to_qubo', 'to_quso'):
                    add('reduce/%s/%s/callable-abs' % (kind, method), 'make_reduce', dict(kind=kind, method=method, deg=deg, lam_mode='callable-abs'))
    return J
