"""C19 -- models survive copy and info round trips and never alias their inputs."""
import itertools
import warnings

import z3

from ..core import Ob
from ..symx import Sym, to_poly, padd
from .. import oracle as O

LEVEL = 'model_checking'
ASSUMPTIONS = [
    'exact rational arithmetic',
    'coefficients are unbounded symbolic reals (zero allowed); names, label sets, constraint menus, mutation menus and the list of library functions swept are enumerated',
    'independence is demanded of copy(), the copy constructors and the properties mapping, reverse_mapping, variables, constraints (as the statement lists); internal sharing that is not observable through those is not flagged',
    'annealers are swept with concrete integer coefficients through the real extension module (they convert to float), everything else with symbolic coefficients',
]
OUTSIDE = ['functions not in the sweep list', 'more than 3 labels', 'float rounding']
BOUNDS = {'quick': {'labels': 3, 'constraints': 'one per relation + logical, with and without ancillas', 'names': [None, 'x', 0, ''], 'sweep': 'see SWEEP in vq/props/c19.py'},
          'thorough': {'same': 'plus 2-constraint menus and dense universes'}}

CONS = {
    'eq': ('eq', {('a',): 1, ('b',): -1}), 'ne': ('ne', {('a',): 1, ('b',): -1, ('c',): 2}), 'lt': ('lt', {('a',): 1, ('b',): 1, ('c',): 1, (): -3}),
    'le': ('le', {('a',): 1, ('b',): 2, (): -2}), 'gt': ('gt', {('a',): 2, ('c',): 1, (): -1}), 'ge': ('ge', {('a', 'b'): 1, ('c',): -1}),
    'zero': ('eq', {}),
}


def same_model(ctx, A, B, spin):
    pa, pb = O.poly_of_model(A, spin), O.poly_of_model(B, spin)
    return z3.And([ctx.z(pa.get(k, {})) == ctx.z(pb.get(k, {})) for k in set(pa) | set(pb)] + [z3.BoolVal(set(A) == set(B))])


def same_constraints(ctx, ca, cb, spin):
    if set(ca) != set(cb) or any(len(ca[k]) != len(cb[k]) for k in ca):
        return z3.BoolVal(False)
    return z3.And([same_model(ctx, x, y, spin) for k in ca for x, y in zip(ca[k], cb[k])] + [z3.BoolVal(True)])


def make_info(ctx, tn, name_idx, cons, remap):
    from qubovert.utils import get_info, create_from_info
    TY = O.types()
    T = TY[tn]
    spin = O.is_spin_name(tn)
    labs = [0, 1, 2] if tn in O.MATRIX_TYPES else ['a', 'b', 'c']
    U = [(), (labs[0],), (labs[0], labs[1])] + ([tuple(labs)] if tn not in O.DEG2_TYPES else [(labs[2],)])
    cs = {k: ctx.real_var('c%d' % i) for i, k in enumerate(U)}
    name = [None, 'x', 0, ''][name_idx]

    def run():
        with warnings.catch_warnings():
            warnings.simplefilter('ignore')
            M = T({k: cs[k] for k in U})
            M.name = name
            for c in cons:
                rel, P = CONS[c]
                getattr(M, 'add_constraint_%s_zero' % rel)(dict(P))
            if remap and hasattr(M, 'set_mapping'):
                pres = sorted(M.variables, key=repr)
                if len(pres) >= 2:
                    M.set_mapping({l: (i + 1) % len(pres) for i, l in enumerate(pres)})
            info = get_info(M)
            C = create_from_info(info)
            info2 = get_info(C)
            # equality of the info dicts, key by key (dict == on symbolic values is evaluated here, inside the run)
            eq = {k: bool(info.get(k) == info2.get(k)) for k in set(info) | set(info2)}
            attrs = {}
            for a in ('mapping', 'num_ancillas', 'constraints', 'name', 'reverse_mapping'):
                if hasattr(M, a):
                    attrs[a] = (getattr(M, a), getattr(C, a))
        return M, C, eq, attrs

    def check(res):
        M, C, eq, attrs = res
        obs = [Ob('type reproduced', type(C) is type(M), info={'got': type(C).__name__}),
               Ob('terms reproduced', same_model(ctx, M, C, spin))]
        for k, ok in sorted(eq.items()):
            obs.append(Ob('get_info(copy)[%s] == get_info(M)[%s]' % (k, k), ok, sig='get_info %s' % k))
        for a, (x, y) in attrs.items():
            if a == 'constraints':
                obs.append(Ob('constraints reproduced', same_constraints(ctx, x, y, spin), info={'kinds': sorted(x), 'kinds_copy': sorted(y)}))
            else:
                obs.append(Ob('%s reproduced' % a, x == y and type(x) is type(y), info={'M': repr(x)[:100], 'copy': repr(y)[:100]}))
        return obs
    return run, check


def make_alias(ctx, tn, how):
    """C = copy of M obtained by `how`; every mutation of one side must leave the other unchanged"""
    TY = O.types()
    T = TY[tn]
    spin = O.is_spin_name(tn)
    labs = [0, 1, 2] if tn in O.MATRIX_TYPES else ['a', 'b', 'c']
    U = [(), (labs[0],), (labs[0], labs[1])]
    cs = {k: ctx.real_var('c%d' % i) for i, k in enumerate(U)}
    v = ctx.real_var('v')
    pc = tn in ('PCBO', 'PCSO')

    def snap(M):
        s = dict(terms=O.snapshot(M), name=M.name, variables=set(M.variables), degree=M.degree, nbv=M.num_binary_variables)
        if hasattr(M, 'mapping'):
            s['mapping'] = M.mapping; s['reverse_mapping'] = M.reverse_mapping
        if pc:
            s['constraints'] = {k: [O.snapshot(x) for x in vv] for k, vv in M.constraints.items()}
            s['num_ancillas'] = M.num_ancillas
        return s

    def run():
        with warnings.catch_warnings():
            warnings.simplefilter('ignore')
            M = T({k: cs[k] for k in U})
            M.name = 'orig'
            if pc:
                M.add_constraint_eq_zero({(labs[0],): 1, (labs[1],): -1})
                M.add_constraint_lt_zero({(labs[0],): 1, (labs[1],): 1, (): -2})
            muts = []
            def fresh():
                if how == 'copy()': return M.copy()
                if how == 'ctor': return T(M)
                if how == 'pos': return +M
                if how == 'add0': return M + 0
            # mutations of the copy
            copy_muts = [('C[k] = v', lambda C: C.__setitem__((labs[0],), v)), ('C[new] += 1', lambda C: C.__setitem__((labs[2],), C[(labs[2],)] + 1)),
                         ('C *= 2', lambda C: C.__imul__(2)), ('C.clear()', lambda C: C.clear()), ('C.name = ...', lambda C: setattr(C, 'name', 'other'))]
            if hasattr(M, 'set_mapping'):
                copy_muts.append(('C.set_mapping', lambda C: C.set_mapping({l: (i + 1) % len(C.variables) for i, l in enumerate(sorted(C.variables, key=repr))}) if len(C.variables) > 1 else None))
            if pc:
                copy_muts += [('C.add_constraint_eq', lambda C: C.add_constraint_eq_zero({(labs[2],): 1})),
                              ('C.add_constraint_lt', lambda C: C.add_constraint_lt_zero({(labs[0],): 1, (labs[2],): 1, (): -2})),
                              ('C._pop via add+pop (ne)', lambda C: C.add_constraint_ne_zero({(labs[0],): 1, (labs[1],): 1, (): -1}))]
            for nm, f in copy_muts:
                C = fresh(); s0 = snap(M); f(C); muts.append(('mutating the copy: ' + nm, s0 == snap(M)))
            # mutations of the original
            for nm, f in copy_muts:
                M2 = T({k: cs[k] for k in U}); M2.name = 'orig'
                if pc:
                    M2.add_constraint_eq_zero({(labs[0],): 1, (labs[1],): -1})
                old = M
                C = {'copy()': M2.copy, 'ctor': lambda: T(M2), 'pos': lambda: +M2, 'add0': lambda: M2 + 0}[how]()
                s0 = snap(C); f(M2); muts.append(('mutating the original: ' + nm, s0 == snap(C)))
            # objects returned by properties
            props = []
            s0 = snap(M)
            if hasattr(M, 'mapping'):
                m = M.mapping; m['zz'] = 99; m.pop(labs[0], None); props.append(('mapping', s0 == snap(M)))
                r = M.reverse_mapping; r[99] = 'zz'; r.pop(0, None); props.append(('reverse_mapping', s0 == snap(M)))
            vs = M.variables; vs.add('zz'); vs.discard(labs[0]); props.append(('variables', s0 == snap(M)))
            if pc:
                c = M.constraints
                c['eq'][0][(labs[2],)] += 5
                c['eq'].append(T({(labs[2],): 1}))
                c['xx'] = []
                props.append(('constraints', s0 == snap(M)))
        return muts, props

    def check(res):
        muts, props = res
        obs = []
        for nm, ok in muts:
            obs.append(Ob('%s [%s] leaves the other side unchanged' % (nm, how), ok, sig='alias: ' + nm))
        for nm, ok in props:
            obs.append(Ob('mutating the object returned by .%s leaves the model unchanged' % nm, ok, sig='alias: property ' + nm))
        return obs
    return run, check


def make_cons_alias(ctx, spin):
    """a constraint polynomial passed as a *model object* is copied: editing it afterwards does not change the recorded constraint; nor does editing what .constraints returns"""
    import qubovert as qv
    T = qv.PCSO if spin else qv.PCBO
    PT = [qv.PUSO, qv.PCSO, qv.QUSO] if spin else [qv.PUBO, qv.PCBO, qv.QUBO]
    cs = {k: ctx.int_var('c%d' % i, -1, 1) for i, k in enumerate([('a',), ('b',), ()])}
    v = ctx.real_var('v')
    sel = ctx.int_var('rel', 0, 5)
    psel = ctx.int_var('ptype', 0, 2)

    def run():
        rel = ['eq', 'ne', 'lt', 'le', 'gt', 'ge'][int(sel)]
        P = PT[int(psel)]({k: cs[k] for k in cs})
        H = T({('q',): 1})
        with warnings.catch_warnings():
            warnings.simplefilter('ignore')
            getattr(H, 'add_constraint_%s_zero' % rel)(P, lam=1, **({} if rel == 'eq' else {'bounds': (-3, 3)}))
        snap = lambda: {k: [O.snapshot(x) for x in vv] for k, vv in H.constraints.items()}
        s0 = snap(); t0 = O.snapshot(H)
        P[('a',)] += v; P[('zz',)] = 5; P *= 2
        ok_after_edit = (snap() == s0 and O.snapshot(H) == t0)
        info = H.constraints
        for vv in info.values():
            for x in vv:
                x[('yy',)] = 1
        return rel, type(P).__name__, ok_after_edit, snap() == s0

    def check(res):
        rel, pt, ok1, ok2 = res
        return [Ob('editing the polynomial passed to add_constraint_%s_zero (%s) afterwards leaves the model unchanged' % (rel, pt), ok1, sig='constraint polynomial aliased by add_constraint_%s_zero' % rel),
                Ob('editing the polynomials returned by .constraints leaves the model unchanged (%s)' % rel, ok2, sig='constraints property aliased')]
    return run, check


def sweep_list(spin):
    """(name, callable(model_or_dict) ) -- library functions taking a model / dict / constraint polynomial argument"""
    import qubovert as qv
    import qubovert.utils as qu
    from qubovert import sat
    L = []
    if not spin:
        L += [('solve_pubo_bruteforce', lambda D: qu.solve_pubo_bruteforce(D)), ('solve_pubo_bruteforce(all)', lambda D: qu.solve_pubo_bruteforce(D, True)),
              ('pubo_to_puso', qu.pubo_to_puso), ('approximate_pubo_extrema', qu.approximate_pubo_extrema),
              ('pubo_value', lambda D: qu.pubo_value({l: 1 for k in D for l in k}, D)),
              ('PCBO.add_constraint_eq_zero(P)', lambda D: qv.PCBO().add_constraint_eq_zero(D)), ('PCBO.add_constraint_le_zero(P)', lambda D: qv.PCBO().add_constraint_le_zero(D, bounds=(-9, 9))),
              ('PCBO.add_constraint_ne_zero(P)', lambda D: qv.PCBO().add_constraint_ne_zero(D, bounds=(-9, 9))), ('PCBO.add_constraint_gt_zero(P)', lambda D: qv.PCBO().add_constraint_gt_zero(D, bounds=(-9, 9))),
              ('PCBO(D)', lambda D: qv.PCBO(D)), ('PUBO(D).to_qubo', lambda D: qv.PUBO(D).to_qubo()),
              ('PCBO + D', lambda D: qv.PCBO({('q',): 1}) + D), ('PCBO * D', lambda D: qv.PCBO({('q',): 1}) * D), ('D - PCBO', lambda D: D - qv.PCBO({('q',): 1})),
              ('PCBO.update(D)', lambda D: qv.PCBO({('q',): 1}).update(D)),
              ('sat.AND(D, x)', lambda D: sat.AND(D, 'x')), ('sat.OR(x, D)', lambda D: sat.OR('x', D)), ('sat.XOR(D, D)', lambda D: sat.XOR(D, D)), ('sat.NOT(D)', lambda D: sat.NOT(D)),
              ('PCBO.add_constraint_eq_AND(x, D, y)', lambda D: qv.PCBO().add_constraint_eq_AND('x', D, 'y')), ('PCBO.add_constraint_OR(D, y)', lambda D: qv.PCBO().add_constraint_OR(D, 'y')),
              ('anneal_temperature_range', lambda D: qv.sim.anneal_temperature_range(D))]
    else:
        L += [('solve_puso_bruteforce', lambda D: qu.solve_puso_bruteforce(D)), ('solve_puso_bruteforce(all)', lambda D: qu.solve_puso_bruteforce(D, True)),
              ('puso_to_pubo', qu.puso_to_pubo), ('approximate_puso_extrema', qu.approximate_puso_extrema),
              ('puso_value', lambda D: qu.puso_value({l: 1 for k in D for l in k}, D)),
              ('PCSO.add_constraint_eq_zero(P)', lambda D: qv.PCSO().add_constraint_eq_zero(D)), ('PCSO.add_constraint_le_zero(P)', lambda D: qv.PCSO().add_constraint_le_zero(D, bounds=(-9, 9))),
              ('PCSO.add_constraint_ne_zero(P)', lambda D: qv.PCSO().add_constraint_ne_zero(D, bounds=(-9, 9))), ('PCSO.add_constraint_lt_zero(P)', lambda D: qv.PCSO().add_constraint_lt_zero(D, bounds=(-9, 9))),
              ('PCSO(D)', lambda D: qv.PCSO(D)), ('PUSO(D).to_quso', lambda D: qv.PUSO(D).to_quso()),
              ('PCSO + D', lambda D: qv.PCSO({('q',): 1}) + D), ('PCSO * D', lambda D: qv.PCSO({('q',): 1}) * D), ('D - PCSO', lambda D: D - qv.PCSO({('q',): 1})),
              ('anneal_temperature_range(spin)', lambda D: qv.sim.anneal_temperature_range(D, spin=True))]
    L += [('subgraph', lambda D: qu.subgraph(D, {'a'}, {'b': 1})), ('subvalue', lambda D: qu.subvalue({'a': 1}, D)), ('normalize', lambda D: qu.normalize(D, 2) if D else None)]
    return L


def make_sweep(ctx, tn, spin):
    TY = O.types()
    T = TY[tn]
    labs = ['a', 'b', 'c']
    U = [(), ('a',), ('a', 'b'), ('b', 'c')]
    cs = {k: ctx.int_var('c%d' % i, -1, 1) for i, k in enumerate(U)}
    L = sweep_list(spin)
    sel = ctx.int_var('fn', 0, len(L) - 1)

    def run():
        name, f = L[int(sel)]
        D = T({k: cs[k] for k in U})
        s0 = O.snapshot(D)
        extra0 = (D.mapping, D.variables, D.name, D.degree) if hasattr(D, 'mapping') else None
        cons0 = {k: [O.snapshot(x) for x in v] for k, v in D.constraints.items()} if hasattr(D, 'constraints') else None
        with warnings.catch_warnings():
            warnings.simplefilter('ignore')
            try:
                f(D)
                exc = None
            except (KeyError, ValueError, ZeroDivisionError, TypeError) as e:
                exc = type(e).__name__
        extra1 = (D.mapping, D.variables, D.name, D.degree) if hasattr(D, 'mapping') else None
        cons1 = {k: [O.snapshot(x) for x in v] for k, v in D.constraints.items()} if hasattr(D, 'constraints') else None
        return name, s0 == O.snapshot(D) and extra0 == extra1 and cons0 == cons1, exc

    def check(res):
        name, ok, exc = res
        return [Ob('%s does not mutate its %s argument' % (name, tn), ok, info={'exception': exc}, sig='mutates argument: ' + name)]
    return run, check


def make_anneal_sweep(ctx, tn):
    """annealers through the real extension module with concrete coefficients (enumerated, no solver quantification)"""
    import qubovert as qv
    TY = O.types()
    T = TY[tn]
    spin = O.is_spin_name(tn)
    labs = [0, 1, 2] if tn in O.MATRIX_TYPES else ['a', 'b', 'c']
    deg2 = tn in O.DEG2_TYPES
    sel = ctx.int_var('k', 0, 2)

    def run():
        k = int(sel)
        coefs = [(1, -2, 3, 1), (0, 1, -1, 2), (-1, -1, -1, -1)][k]
        U = [(), (labs[0],), (labs[0], labs[1]), (labs[1], labs[2]) if deg2 else tuple(labs)]
        D = T({kk: c for kk, c in zip(U, coefs)})
        D.name = 'model'
        if k == 1:
            D[(labs[2],)] += 3; D[(labs[2],)] -= 3          # stale bookkeeping: a refresh() inside the annealer would be observable
        full = lambda: (dict(D), D.variables if hasattr(D, 'variables') else None, D.mapping if hasattr(D, 'mapping') else None, D.name, D.degree,
                        D.num_binary_variables, getattr(D, 'max_index', None), D.constraints if hasattr(D, 'constraints') else None)
        s0 = full()
        if spin:
            f = qv.sim.anneal_quso if deg2 else qv.sim.anneal_puso
        else:
            f = qv.sim.anneal_qubo if deg2 else qv.sim.anneal_pubo
        init = {l: (1 if spin else 0) for l in labs}
        f(D, num_anneals=2, seed=1)
        f(D, num_anneals=1, seed=1, initial_state=init, schedule=[1.0, 0.5, 0.0])
        s1 = full()
        return f.__name__, s0 == s1, init == {l: (1 if spin else 0) for l in labs}

    def check(res):
        name, ok, ok_init = res
        return [Ob('%s does not mutate its %s argument' % (name, tn), ok, sig='mutates argument: ' + name),
                Ob('%s does not mutate initial_state' % name, ok_init, sig='mutates initial_state: ' + name)]
    return run, check


def jobs(tier, seed):
    J = []
    def add(name, make, args):
        J.append(dict(name=name, sig=name, module='vq.props.c19', make=make, args=args, budget_s=300 if tier == 'quick' else 1800, max_cex=30))
    for tn in O.BOOL_TYPES + O.SPIN_TYPES:
        for ni in range(4):
            add('info/%s/name%d' % (tn, ni), 'make_info', dict(tn=tn, name_idx=ni, cons=[], remap=(ni == 1)))
        if tn in ('PCBO', 'PCSO'):
            for c in ['eq', 'ne', 'lt', 'le', 'gt', 'ge', 'zero']:
                add('info/%s/cons=%s' % (tn, c), 'make_info', dict(tn=tn, name_idx=1, cons=[c], remap=False))
            add('info/%s/cons=lt+eq+lt/remap' % tn, 'make_info', dict(tn=tn, name_idx=2, cons=['lt', 'eq', 'lt'], remap=True))
            add('info/%s/cons=ne+ge+zero' % tn, 'make_info', dict(tn=tn, name_idx=0, cons=['ne', 'ge', 'zero'], remap=False))
            if tier != 'quick':
                import itertools as _it
                for c1, c2 in _it.combinations(['eq', 'ne', 'lt', 'le', 'gt', 'ge'], 2):
                    add('info/%s/cons=%s+%s/remap' % (tn, c1, c2), 'make_info', dict(tn=tn, name_idx=3, cons=[c1, c2, c1], remap=True))
        for how in ['copy()', 'ctor', 'pos', 'add0']:
            add('alias/%s/%s' % (tn, how), 'make_alias', dict(tn=tn, how=how))
    for sp in (False, True):
        add('cons-alias/%s' % ('spin' if sp else 'bool'), 'make_cons_alias', dict(spin=sp))
    for tn in ['dict', 'PUBO', 'PCBO', 'QUBO']:
        add('sweep/%s/bool' % tn, 'make_sweep', dict(tn=tn, spin=False))
    for tn in ['dict', 'PUSO', 'PCSO', 'QUSO']:
        add('sweep/%s/spin' % tn, 'make_sweep', dict(tn=tn, spin=True))
    for tn in O.BOOL_TYPES + O.SPIN_TYPES:
        add('anneal-sweep/%s' % tn, 'make_anneal_sweep', dict(tn=tn))
    return J
