"""C04 -- boolean/spin conversions, enumerations and exports preserve the function."""
import itertools

import z3

from ..core import Ob
from ..symx import Sym, to_poly, padd
from .. import oracle as O

LEVEL = 'model_checking'
ASSUMPTIONS = [
    'exact rational arithmetic (IEEE rounding outside the claim)',
    'all coefficients are unbounded symbolic reals, zero allowed (bounded integers only where the code writes into a float ndarray: qubo_to_matrix)',
    'source kinds, label sets and raw-key shapes (unsorted, repeated labels) are enumerated structure',
    'convert_solution is always told the form of the solution (spin=...), since an all-ones vector is documented to be ambiguous',
    'the fixed correspondence boolean 0 <-> spin 1, boolean 1 <-> spin -1 is applied on the oracle side',
]
OUTSIDE = ['more than 2 labels in the dense universes (3 labels / 5 monomials in thorough)', 'degree-reducing conversions (C01)', 'float rounding']
BOUNDS = {'quick': {'functions': '4 conversion functions x (10 model types + raw dict)', 'methods': 'to_qubo/to_quso/to_pubo/to_puso/to_enumerated on the 6 labelled types (no reduction needed)',
                    'universe': 'dense over 2 labels; raw dicts add (l1,l0), (l0,l0), (l0,l1,l0)', 'set_mapping': 'a 3-cycle on 3 labels; a 2-cycle followed by a new variable', 'exports': 'Q, h/J, matrix_to_qubo, qubo_to_matrix (3x3, ints in [-2,2])'},
          'thorough': {'universe': '3 labels, 5 monomials'}}


def conv_rule(fn):
    import qubovert as qv
    from qubovert.utils import PUBOMatrix, PUSOMatrix, QUBOMatrix, QUSOMatrix
    return {'pubo_to_puso': (PUBOMatrix, PUSOMatrix, qv.PUSO), 'puso_to_pubo': (PUSOMatrix, PUBOMatrix, qv.PUBO),
            'qubo_to_quso': (QUBOMatrix, QUSOMatrix, qv.QUSO), 'quso_to_qubo': (QUSOMatrix, QUBOMatrix, qv.QUBO)}[fn]


def make_conv(ctx, fn, src, nlab=2, big=False):
    import qubovert.utils as qu
    TY = O.types()
    T = TY[src]
    f = getattr(qu, fn)
    spin_src = fn in ('puso_to_pubo', 'quso_to_qubo')
    deg2 = fn in ('qubo_to_quso', 'quso_to_qubo') or src in O.DEG2_TYPES
    labs = list(range(nlab)) if src in O.MATRIX_TYPES else O.LABEL_POOL[:nlab]
    if big:
        U = O.universe(labs, 1) + [tuple(labs[:2])] + ([tuple(labs)] if not deg2 else [tuple(labs[1:3])])
    else:
        U = O.universe(labs, 2)
    if src == 'dict':
        # raw keys: unsorted, repeated labels (a dense universe plus all of them costs 14k paths; one representative of each kind)
        U = [(), (labs[0],), (labs[1], labs[0]), (labs[0], labs[0]), (labs[0], labs[1], labs[0])] + ([(labs[0], labs[1])] if big else [])
    cs = {k: ctx.real_var('c%d' % i) for i, k in enumerate(U)}
    m_in, m_out, lab_t = conv_rule(fn)

    def run():
        S = T({k: cs[k] for k in U})
        before = O.snapshot(S)
        out = f(S)
        return S, before, O.snapshot(S), out

    def check(res):
        S, before, after, out = res
        want = m_out if type(S) is m_in else lab_t
        obs = [Ob('result type follows the documented rule', type(out) is want, info={'got': type(out).__name__, 'want': want.__name__}),
               Ob('argument unchanged', before == after)]
        bad = []
        for a in O.assigns(labs, False):
            sa = O.b2s(a)
            if spin_src:
                sv, tv = O.spin_poly(S, sa), O.bool_poly(out, a)
            else:
                sv, tv = O.bool_poly(S, a), O.spin_poly(out, sa)
            d = padd(sv, tv, -1)
            if d: bad.append(ctx.z(d) != 0)
        obs.append(Ob('value preserved on every corresponding assignment', z3.Not(z3.Or(bad)) if bad else True))
        obs.append(Ob('no zero coefficient stored', z3.And([ctx.z(v) != 0 for v in out.values()] or [z3.BoolVal(True)])))
        return obs
    return run, check


ENUM_T = {'QUBO': 'QUBOMatrix', 'PUBO': 'PUBOMatrix', 'PCBO': 'PUBOMatrix', 'QUSO': 'QUSOMatrix', 'PUSO': 'PUSOMatrix', 'PCSO': 'PUSOMatrix'}
METH_T = {'to_qubo': 'QUBOMatrix', 'to_quso': 'QUSOMatrix', 'to_pubo': 'PUBOMatrix', 'to_puso': 'PUSOMatrix'}


def make_method(ctx, src, method, nlab=2, deg=2, remap=False, sparse=False):
    """labelled type -> enumerated Matrix form; convert_solution; M.value(M.convert_solution(s)) == form(s)"""
    TY = O.types()
    T = TY[src]
    src_spin = O.is_spin_name(src)
    labs = O.LABEL_POOL[:nlab]
    U = O.universe(labs, min(deg, nlab))
    if sparse:
        U = [(labs[0],), (labs[1], labs[2]), tuple(labs)]
    cs = {k: ctx.real_var('c%d' % i) for i, k in enumerate(U)}
    cnew = ctx.real_var('cnew') if remap == 'newvar' else None
    tname = ENUM_T[src] if method == 'to_enumerated' else METH_T[method]
    tgt_spin = O.is_spin_name(tname)

    def run():
        M = T({k: cs[k] for k in U})
        if remap:
            # history: export once, then a user-chosen relabelling (cyclic shift of the labels present), then export again
            getattr(M, method)()
            present = sorted(M.variables, key=repr)
            if len(present) >= 2:
                M.set_mapping({l: (i + 1) % len(present) for i, l in enumerate(present)})
            if remap == 'newvar':
                # ... and a variable that first appears after the relabelling
                M[('nv',)] += cnew
        before = O.snapshot(M)
        D = getattr(M, method)()
        n = M.num_binary_variables
        mp = M.mapping
        conv, vals = [], []
        tv = (1, -1) if tgt_spin else (0, 1)
        for xs in itertools.product(tv, repeat=n):
            for form_name, form in (('dict', dict(enumerate(xs))), ('list', list(xs)), ('tuple', tuple(xs))):
                got = M.convert_solution(form, spin=tgt_spin)
                conv.append((xs, form_name, got))
            vals.append((xs, M.value(M.convert_solution(list(xs), spin=tgt_spin)) if n else M.value({})))
        return M, D, n, mp, before, O.snapshot(M), conv, vals, M.variables

    def check(res):
        M, D, n, mp, before, after, conv, vals, mvars = res
        obs = [Ob('result type', type(D) is O.types()[tname], info={'got': type(D).__name__}), Ob('model unchanged', before == after)]
        used = {i for k in D for i in k}
        okmap = used <= set(range(n)) and set(mp) == set(mvars) and sorted(mp.values()) == list(range(n))
        obs.append(Ob('labels are the mapping integers 0..n-1', okmap, info={'used': sorted(used), 'n': n, 'mapping': {repr(k): v for k, v in mp.items()}}))
        if not okmap:
            return obs
        tv = (1, -1) if tgt_spin else (0, 1)
        def want_conv(xs):
            w = {}
            for l, i in mp.items():
                b = (1 - xs[i]) // 2 if tgt_spin else xs[i]
                w[l] = (1 - 2 * b) if src_spin else b
            return w
        for xs, form_name, got in conv:
            obs.append(Ob('convert_solution(%s %s) undoes the relabelling' % (form_name, xs), got == want_conv(xs), info={'got': repr(got)},
                          sig='convert_solution on %s' % form_name))
        bad, badv = [], []
        vd = dict(vals)
        for xs in itertools.product(tv, repeat=n):
            x = want_conv(xs)
            sv = O.val_poly(M, x, src_spin)
            tvp = O.val_poly(D, dict(enumerate(xs)), tgt_spin)
            d = padd(sv, tvp, -1)
            if d: bad.append(ctx.z(d) != 0)
            d2 = padd(to_poly(vd[xs]), tvp, -1)
            if d2: badv.append(ctx.z(d2) != 0)
        obs.append(Ob('enumerated value equals source value on every corresponding assignment', z3.Not(z3.Or(bad)) if bad else True))
        obs.append(Ob('M.value(M.convert_solution(s)) equals the enumerated value at s', z3.Not(z3.Or(badv)) if badv else True))
        return obs
    return run, check


def make_export(ctx, which):
    from qubovert.utils import QUBOMatrix, QUSOMatrix, matrix_to_qubo, qubo_to_matrix
    n = 3
    if which in ('Q', 'hJ'):
        U = O.universe(list(range(n)), 2)
        cs = {k: ctx.real_var('c%d' % i) for i, k in enumerate(U)}
    else:
        ent = {(i, j): ctx.int_var('m%d%d' % (i, j), -1, 1) for i in range(n) for j in range(n)}

    def run():
        if which == 'Q':
            M = QUBOMatrix({k: cs[k] for k in U}); return M, M.Q
        if which == 'hJ':
            M = QUSOMatrix({k: cs[k] for k in U}); return M, (M.h, M.J)
        if which == 'matrix_to_qubo':
            mat = [[ent[(i, j)] for j in range(n)] for i in range(n)]
            return mat, matrix_to_qubo(mat)
        # qubo_to_matrix: upper-triangular integer QUBO without offset
        Q = QUBOMatrix({(i, j): ent[(i, j)] for i in range(n) for j in range(i, n)})
        if not Q:
            return None, None
        sym = qubo_to_matrix(Q, symmetric=True, array=False)
        up = qubo_to_matrix(Q, symmetric=False, array=True)
        return Q, (sym, [[up[i][j] for j in range(len(up))] for i in range(len(up))])

    def check(res):
        src, out = res
        if src is None:
            return [Ob('empty QUBO is rejected by qubo_to_matrix (documented ValueError) -- skipped', True)]
        obs = []
        bad = []
        for a in O.assigns(list(range(n)), which == 'hJ'):
            if which == 'Q':
                want = padd(O.bool_poly(src, a), to_poly(src.get((), 0)), -1)
                got = {}
                for (i, j), v in out.items():
                    if a[i] and a[j]: got = padd(got, to_poly(v))
            elif which == 'hJ':
                want = padd(O.spin_poly(src, a), to_poly(src.get((), 0)), -1)
                got = {}
                for i, v in out[0].items(): got = padd(got, to_poly(v), a[i])
                for (i, j), v in out[1].items(): got = padd(got, to_poly(v), a[i] * a[j])
            elif which == 'matrix_to_qubo':
                want = {}
                for i in range(n):
                    for j in range(n):
                        if a[i] and a[j]: want = padd(want, to_poly(src[i][j]))
                got = O.bool_poly(out, a)
            else:
                want = O.bool_poly(src, a)
                gots = []
                for mat in out:
                    g = {}
                    for i in range(len(mat)):
                        for j in range(len(mat)):
                            if i < n and j < n and a[i] and a[j]: g = padd(g, to_poly(mat[i][j]))
                    gots.append(g)
                for g in gots:
                    d = padd(g, want, -1)
                    if d: bad.append(ctx.z(d) != 0)
                continue
            d = padd(got, want, -1)
            if d: bad.append(ctx.z(d) != 0)
        obs.append(Ob('%s describes the same function up to the offset' % which, z3.Not(z3.Or(bad)) if bad else True))
        if which == 'Q':
            obs.append(Ob('Q keys are pairs', all(len(k) == 2 for k in out)))
        if which == 'matrix_to_qubo':
            obs.append(Ob('matrix_to_qubo returns a QUBOMatrix', type(out) is QUBOMatrix))
        if which == 'qubo_to_matrix':
            sym = out[0]
            obs.append(Ob('symmetric form is symmetric', all(sym[i][j] == sym[j][i] for i in range(len(sym)) for j in range(len(sym)))))
            up = out[1]
            obs.append(Ob('upper-triangular form is upper triangular', all(up[i][j] == 0 for i in range(len(up)) for j in range(i))))
        return obs
    return run, check


def jobs(tier, seed):
    J = []
    def add(name, make, args, budget=300):
        J.append(dict(name=name, sig=name, module='vq.props.c04', make=make, args=args, budget_s=budget if tier == 'quick' else 1800))
    for fn, fam in [('pubo_to_puso', O.BOOL_TYPES), ('puso_to_pubo', O.SPIN_TYPES), ('qubo_to_quso', O.BOOL_TYPES), ('quso_to_qubo', O.SPIN_TYPES)]:
        for src in fam + ['dict']:
            add('conv/%s/%s' % (fn, src), 'make_conv', dict(fn=fn, src=src))
            if tier != 'quick':
                add('conv/%s/%s/n3' % (fn, src), 'make_conv', dict(fn=fn, src=src, nlab=3, big=True))
    for src in ['QUBO', 'PUBO', 'PCBO', 'QUSO', 'PUSO', 'PCSO']:
        for method in ['to_qubo', 'to_quso', 'to_pubo', 'to_puso', 'to_enumerated']:
            add('method/%s/%s' % (src, method), 'make_method', dict(src=src, method=method))
        add('method/%s/to_enumerated/n3/remap' % src, 'make_method', dict(src=src, method='to_enumerated', nlab=3, deg=2, remap=True))
        add('method/%s/%s/n2/remap+newvar' % (src, 'to_qubo' if not O.is_spin_name(src) else 'to_quso'), 'make_method',
            dict(src=src, method='to_qubo' if not O.is_spin_name(src) else 'to_quso', nlab=2, deg=2, remap='newvar'))
        if src not in ('QUBO', 'QUSO'):
            m = 'to_puso' if O.is_spin_name(src) else 'to_pubo'
            add('method/%s/%s/n3/deg3' % (src, m), 'make_method', dict(src=src, method=m, nlab=3, deg=3))
            add('method/%s/%s/n3/deg3/remap' % (src, 'to_pubo' if O.is_spin_name(src) else 'to_puso'), 'make_method',
                dict(src=src, method='to_pubo' if O.is_spin_name(src) else 'to_puso', nlab=3, deg=3, remap=True, sparse=True))
    for w in ['Q', 'hJ', 'matrix_to_qubo', 'qubo_to_matrix']:
        add('export/%s' % w, 'make_export', dict(which=w))
    if tier != 'quick':
        for src in ['QUBO', 'PUBO', 'PCBO', 'QUSO', 'PUSO', 'PCSO']:
            same = ['to_quso', 'to_puso'] if O.is_spin_name(src) else ['to_qubo', 'to_pubo']
            for method in same + ['to_enumerated']:
                if src in ('QUBO', 'QUSO') or method in ('to_qubo', 'to_quso'):
                    add('method/%s/%s/n3/dense2' % (src, method), 'make_method', dict(src=src, method=method, nlab=3, deg=2, remap=(method == 'to_enumerated')))
                else:
                    add('method/%s/%s/n3/dense3' % (src, method), 'make_method', dict(src=src, method=method, nlab=3, deg=3, remap=(method == 'to_enumerated')))
            cross = ['to_qubo', 'to_pubo'] if O.is_spin_name(src) else ['to_quso', 'to_puso']
            for method in cross:
                add('method/%s/%s/n3/sparse/remap' % (src, method), 'make_method', dict(src=src, method=method, nlab=3, deg=2 if (src in ('QUBO', 'QUSO') or method in ('to_qubo', 'to_quso')) else 3,
                                                                                    remap=True, sparse=(src not in ('QUBO', 'QUSO') and method not in ('to_qubo', 'to_quso'))))
    return J


def post(results, tier, seed):
    """label-symbolic CrossHair lemmas on the real helper functions (auxiliary layer, see DESIGN.md 2.3)"""
    from ..lemmas.run import as_extra
    return as_extra('keys', ['lemma_spin_bool_roundtrip', 'lemma_boolean_to_spin_values', 'lemma_is_solution_spin', 'lemma_decimal_roundtrip'], 'C04', timeout=20 if tier == 'quick' else 60)
