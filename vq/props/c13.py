"""C13 -- AnnealResults keeps `best` equal to the minimum under every list operation."""
import z3

from ..core import Ob
from ..symx import Sym, to_poly
from .. import oracle as O

LEVEL = 'model_checking'
ASSUMPTIONS = [
    'result values are unbounded symbolic reals (ties / duplicated values are chosen by the solver)',
    'operation histories are enumerated up to the stated length over the stated menu; the menu position is a realised bounded solver integer',
    'a plain-list shadow decides which operands "a plain list would accept": if the list operation raises IndexError/ValueError the AnnealResults operation may raise too',
    '`*` is read as `results * k`; the reflected `k * results` and the unlisted in-place forms (`*=`, reverse) are not part of the histories',
]
OUTSIDE = ['histories longer than the bound', 'operations outside the menu', 'non-AnnealResult elements']
BOUNDS = {'quick': {'history_length': 2, 'start_states': ['empty', 'one element', 'two elements'], 'menu': 'MENU in vq/props/c13.py (all listed operations, indices 0/-1/1)'},
          'thorough': {'history_length': 3}}


def build_menu(mk):
    """each entry: (name, ar_fn(cur) -> new current collection (or same), list_fn(shadow list) -> new shadow | None)"""
    from qubovert.sim import AnnealResults, AnnealResult
    M = []

    def both(name, f_ar, f_ls):
        M.append((name, f_ar, f_ls))

    def inplace(name, f):
        # same callable works on AnnealResults and on list
        both(name, lambda r, e: (f(r, e), r)[1], lambda l, e: (f(l, e), l)[1])

    inplace('append(new)', lambda r, e: r.append(e[0]))
    both('add_state(new)', lambda r, e: (r.add_state(e[0].state, e[0].value, e[0].spin), r)[1], 'add_state')
    for i in (0, -1, 1):
        inplace('insert(%d,new)' % i, lambda r, e, i=i: r.insert(i, e[0]))
        inplace('pop(%d)' % i, lambda r, e, i=i: r.pop(i))
        inplace('setitem(%d,new)' % i, lambda r, e, i=i: r.__setitem__(i, e[0]))
        inplace('delitem(%d)' % i, lambda r, e, i=i: r.__delitem__(i))
    inplace('remove(first element)', lambda r, e: r.remove(r[0]))
    inplace('remove(equal copy of last)', lambda r, e: r.remove(r[-1].copy()))
    inplace('remove(new: not present)', lambda r, e: r.remove(e[0]))
    inplace('extend([new])', lambda r, e: r.extend([e[0]]))
    inplace('extend([])', lambda r, e: r.extend([]))
    inplace('extend(AnnealResults([new,new2]))', lambda r, e: r.extend(AnnealResults([e[0], e[1]])))
    inplace('extend(AnnealResults())', lambda r, e: r.extend(AnnealResults()))
    inplace('extend(generator of new,new2)', lambda r, e: r.extend(x for x in (e[0], e[1])))
    both('+ [new]', lambda r, e: r + [e[0]], lambda l, e: l + [e[0]])
    both('+ AnnealResults([new])', lambda r, e: r + AnnealResults([e[0]]), lambda l, e: l + [e[0]])
    both('+ AnnealResults()', lambda r, e: r + AnnealResults(), lambda l, e: l + [])
    both('+= [new]', lambda r, e: r.__iadd__([e[0]]), lambda l, e: l.__iadd__([e[0]]))
    both('+= AnnealResults([new,new2])', lambda r, e: r.__iadd__(AnnealResults([e[0], e[1]])), lambda l, e: l.__iadd__([e[0], e[1]]))
    both('+= AnnealResults()', lambda r, e: r.__iadd__(AnnealResults()), lambda l, e: l.__iadd__([]))
    both('+= generator of new', lambda r, e: r.__iadd__(x for x in (e[0],)), lambda l, e: l.__iadd__([e[0]]))
    for k in (2, 1, 0, -1):
        both('* %d' % k, lambda r, e, k=k: r * k, lambda l, e, k=k: l * k)
    for nm, sl in (('[0:1]', slice(0, 1)), ('[1:]', slice(1, None)), ('[:]', slice(None)), ('[::-1]', slice(None, None, -1))):
        both('slice' + nm, lambda r, e, sl=sl: r[sl], lambda l, e, sl=sl: l[sl])
    both('getitem(0) (no change)', lambda r, e: (r[0], r)[1], lambda l, e: (l[0], l)[1])
    inplace('setitem slice [0:1]=[new]', lambda r, e: r.__setitem__(slice(0, 1), [e[0]]))
    inplace('delitem slice [0:1]', lambda r, e: r.__delitem__(slice(0, 1)))
    inplace('delitem slice [0:2]', lambda r, e: r.__delitem__(slice(0, 2)))
    inplace('delitem slice [1:]', lambda r, e: r.__delitem__(slice(1, None)))
    inplace('setitem slice [0:2]=[new]', lambda r, e: r.__setitem__(slice(0, 2), [e[0]]))
    both('sort(reverse=True)', lambda r, e: (r.sort(reverse=True), r)[1], 'sortrev')
    inplace('clear', lambda r, e: r.clear())
    both('sort', lambda r, e: (r.sort(), r)[1], None)
    # an edit followed by sort(): the list-side callable performs only the edit (it decides whether a plain list would raise);
    # the result must be the edited multiset in value order
    both('setitem(0,new) then sort', lambda r, e: (r.__setitem__(0, e[0]), r.sort(), r)[2], ('sortedit', lambda l, e: (l.__setitem__(0, e[0]), l)[1]))
    both('setitem slice [0:1]=[new] then sort', lambda r, e: (r.__setitem__(slice(0, 1), [e[0]]), r.sort(), r)[2], ('sortedit', lambda l, e: (l.__setitem__(slice(0, 1), [e[0]]), l)[1]))
    both('append(new) then sort', lambda r, e: (r.append(e[0]), r.sort(), r)[2], ('sortedit', lambda l, e: l + [e[0]]))
    both('copy', lambda r, e: r.copy(), lambda l, e: l.copy())
    both('AnnealResults(list)', lambda r, e: AnnealResults(list(r)), lambda l, e: list(l))
    both('AnnealResults(generator)', lambda r, e: AnnealResults(x for x in r), lambda l, e: list(l))
    first = lambda s: next(iter(s.values()))      # noqa
    both('filter(first state value is set)', lambda r, e: r.filter(lambda x: first(x.state) == 1), lambda l, e: [x for x in l if first(x.state) == 1])
    both('filter_states(first state value not set)', lambda r, e: r.filter_states(lambda s: first(s) != 1), lambda l, e: [x for x in l if first(x.state) != 1])
    both('apply_function(negate value)', lambda r, e: r.apply_function(lambda x: AnnealResult(x.state, -x.value, x.spin)), 'negate')
    both('convert_states(relabel)', lambda r, e: r.convert_states(lambda s: {('q', k): v for k, v in s.items()}), 'relabel')
    both('to_boolean', lambda r, e: r.to_boolean(), 'to_boolean')
    both('to_spin', lambda r, e: r.to_spin(), 'to_spin')
    return M


NMENU = 58


def make_history(ctx, start, first, length, big=0):
    from qubovert.sim import AnnealResults, AnnealResult
    if big:
        # values 10^10 + k with k a small solver integer: relative gaps of 1e-10 (a tolerance-based comparison would call them ties)
        pool = [ctx.int_var('v%d' % i, 0, 2) + big for i in range(2 + 2 * length)]
    else:
        pool = [ctx.real_var('v%d' % i) for i in range(2 + 2 * length)]
    sel = [ctx.int_var('s%d' % i, 0, NMENU - 1) for i in range(1, length)]

    def run():
        cnt = [0]

        def mk():
            i = cnt[0]; cnt[0] += 1
            return AnnealResult({0: 1 if i % 2 == 0 else -1}, pool[i], True)
        MEN = build_menu(mk)
        assert len(MEN) == NMENU, len(MEN)
        cur = AnnealResults([mk() for _ in range(start)])
        shadow = list(cur)            # expected content as a plain list of (element or derived description)
        idx = [first] + [int(s) for s in sel]
        names = [MEN[i][0] for i in idx]
        log = []
        for step, i in enumerate(idx):
            name, f_ar, f_ls = MEN[i]
            e = (mk(), mk())
            list_raises = None
            exp = None
            sortedit = isinstance(f_ls, tuple) and f_ls[0] == 'sortedit'
            if sortedit:
                try:
                    exp = f_ls[1](list(shadow), e)
                except (IndexError, ValueError) as ex:
                    list_raises = type(ex).__name__
            if callable(f_ls):
                try:
                    exp = f_ls(list(shadow), e)
                except (IndexError, ValueError) as ex:
                    list_raises = type(ex).__name__
            try:
                new = f_ar(cur, e)
            except Exception as ex:      # noqa
                if list_raises is not None:
                    log.append((step, 'raises only where a plain list raises', True, {}))
                    return names[:step + 1], log, None
                import traceback
                log.append((step, 'no exception on operands a plain list accepts', False,
                            {'exception': type(ex).__name__, 'message': str(ex)[:200], 'tb': traceback.format_exc()[-600:]}))
                return names[:step + 1], log, None
            if list_raises is not None:
                # list would have raised; AnnealResults did not: not demanded by the property, history ends here
                log.append((step, 'list raises %s, AnnealResults accepted' % list_raises, True, {}))
                return names[:step + 1], log, None
            # expected content
            if callable(f_ls):
                shadow = exp
                same_objs = True
            elif f_ls is None or sortedit or f_ls == 'sortrev':       # sort (possibly after an edit): same multiset as the edited list, ordered
                same_objs = None
                if sortedit: shadow = exp
            else:
                same_objs = f_ls
            cur = new
            log.append((step, 'result is an AnnealResults', type(cur) is AnnealResults, {'type': type(cur).__name__}))
            if type(cur) is not AnnealResults:
                return names[:step + 1], log, None
            if same_objs is True:
                ok = len(cur) == len(shadow) and all(a is b for a, b in zip(cur, shadow))
                log.append((step, 'content equals what the same list operation gives', ok, {'len': len(cur), 'want': len(shadow)}))
            elif same_objs is None:
                ok = len(cur) == len(shadow) and sorted(map(id, cur)) == sorted(map(id, shadow))
                log.append((step, 'sort keeps the elements', ok, {}))
                log.append((step, 'sort orders by value', ('sortedrev' if f_ls == 'sortrev' else 'sorted', [x.value for x in cur]), {}))
                shadow = list(cur)
            else:
                if same_objs == 'add_state':
                    ok = len(cur) == len(shadow) + 1 and all(a is b for a, b in zip(cur, shadow)) and cur[-1].state == e[0].state and cur[-1].spin == e[0].spin
                    log.append((step, 'add_state appends one result with the given state', ok, {}))
                    if ok:
                        log.append((step, 'add_state stores the given value', ('eqvals', [cur[-1].value], [e[0].value]), {}))
                    shadow = list(cur)
                ok = len(cur) == len(shadow)
                log.append((step, '%s keeps the length' % same_objs, ok, {}))
                if ok and same_objs != 'add_state':
                    if same_objs == 'negate':
                        log.append((step, 'apply_function maps each element', ('eqvals', [x.value for x in cur], [-x.value for x in shadow]), {}))
                    else:
                        log.append((step, '%s preserves values' % same_objs, ('eqvals', [x.value for x in cur], [x.value for x in shadow]), {}))
                    if same_objs == 'to_boolean':
                        log.append((step, 'to_boolean gives boolean states', all((not x.spin) and set(x.state.values()) <= {0, 1} for x in cur), {}))
                        back = cur.to_spin()
                        log.append((step, 'to_spin inverts to_boolean on states', [x.state for x in back] == [x.state if x.spin else None for x in shadow]
                                    if all(x.spin for x in shadow) else True, {}))
                    if same_objs == 'to_spin':
                        log.append((step, 'to_spin gives spin states', all(x.spin and set(x.state.values()) <= {1, -1} for x in cur), {}))
                        back = cur.to_boolean()
                        log.append((step, 'to_boolean inverts to_spin on states', [x.state for x in back] == [x.state for x in shadow]
                                    if all(not x.spin for x in shadow) else True, {}))
                shadow = list(cur)
            # best
            if len(cur) == 0:
                log.append((step, 'best is None when empty', cur.best is None, {'best_is_none': cur.best is None}))
            else:
                isel = cur.best is not None and any(x is cur.best for x in cur)
                log.append((step, 'best is an element of the collection', isel, {'best_is_none': cur.best is None, 'len': len(cur)}))
                if cur.best is not None:
                    log.append((step, 'best has the smallest value', ('min', cur.best.value, [x.value for x in cur]), {}))
        return names, log, cur

    def check(res):
        names, log, cur = res
        obs = []
        for step, chk, ok, info in log:
            pre = ' ; '.join(names[:step + 1])
            if isinstance(ok, tuple):
                if ok[0] == 'min':
                    f = z3.And([ctx.z(ok[1]) <= ctx.z(x) for x in ok[2]])
                elif ok[0] == 'sorted':
                    vs = [ctx.z(x) for x in ok[1]]
                    f = z3.And([a <= b for a, b in zip(vs, vs[1:])] or [z3.BoolVal(True)])
                elif ok[0] == 'sortedrev':
                    vs = [ctx.z(x) for x in ok[1]]
                    f = z3.And([a >= b for a, b in zip(vs, vs[1:])] or [z3.BoolVal(True)])
                elif ok[0] == 'eqvals':
                    f = z3.And([ctx.z(a) == ctx.z(b) for a, b in zip(ok[1], ok[2])] or [z3.BoolVal(True)])
            else:
                f = bool(ok)
            sig = '%s after %s' % (chk, names[step])
            if info.get('exception'):
                sig = 'raises %s in %s' % (info['exception'], names[step])
            obs.append(Ob('%s [start=%d; %s]' % (chk, start, pre), f, info=dict(info, history=names[:step + 1], start=start), sig=sig))
        return obs
    return run, check


def jobs(tier, seed):
    J = []
    length = 2 if tier == 'quick' else 3
    names = [m[0] for m in build_menu(None)]
    bigfirst = [names.index(n) for n in ('append(new)', 'add_state(new)', 'insert(0,new)', 'extend([new])', '+= [new]', 'extend(AnnealResults([new,new2]))', 'extend(generator of new,new2)')]
    for start in (0, 1):
        for first in bigfirst:
            J.append(dict(name='big/start=%d/first=%02d/len=%d' % (start, first, 2), sig='history', module='vq.props.c13', make='make_history',
                          args=dict(start=start, first=first, length=2, big=10 ** 10), budget_s=200 if tier == 'quick' else 1800, max_cex=60))
    for start in (0, 1, 2):
        for first in range(NMENU):
            J.append(dict(name='start=%d/first=%02d/len=%d' % (start, first, length), sig='history', module='vq.props.c13', make='make_history',
                          args=dict(start=start, first=first, length=length), budget_s=200 if tier == 'quick' else 1800, max_cex=60))
    return J
