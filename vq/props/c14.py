"""C14 -- model bookkeeping stays consistent under every history of edits."""
import itertools
import warnings

import z3

from ..core import Ob
from ..symx import Sym, to_poly
from .. import oracle as O

LEVEL = 'model_checking'
ASSUMPTIONS = [
    'exact rational arithmetic',
    'assigned values / operand coefficients are unbounded symbolic reals (zero and cancellations included -- the solver picks them)',
    'edit histories are enumerated up to the stated length over the stated edit menu (the position in the menu is a realised bounded solver integer, so histories are paths of one tree)',
    'labels: strings for labelled types (keys with repeated labels included), small ints for Matrix types',
]
OUTSIDE = ['histories longer than the bound', 'edits outside the menu (e.g. direct dict.__setitem__ bypass, pop/del)', 'float rounding']
BOUNDS = {'quick': {'history_length': 2, 'types': 'all 10', 'menu': 'see MENU in vq/props/c14.py', 'start': 'the empty model, and for one (quick) or two (thorough) first edits a non-empty base model'},
          'thorough': {'history_length': 3, 'types': 'all 10'}}

LABELLED = ['QUBO', 'PUBO', 'PCBO', 'QUSO', 'PUSO', 'PCSO']


def menu(tn, T, v, lab):
    a, b, c, d = lab
    deg2 = tn in O.DEG2_TYPES
    big = (b, c) if deg2 else (b, c, d)
    m = [
        ('set a=v0', lambda M: M.__setitem__((a,), v[0]) or M),
        ('set big=v1', lambda M: M.__setitem__(big, v[1]) or M),
        ('set aa=v2', lambda M: M.__setitem__((a, a), v[2]) or M),
        ('set aba=v1', lambda M: M.__setitem__((a, b, a), v[1]) or M),
        ('a+=v2', lambda M: M.__setitem__((a,), M[(a,)] + v[2]) or M),
        ('a-=v0', lambda M: M.__setitem__((a,), M[(a,)] - v[0]) or M),
        ('big-=v1', lambda M: M.__setitem__(big, M[big] - v[1]) or M),
        ('touch-and-cancel a', lambda M: (M.__setitem__((a,), M[(a,)] + v[2]), M.__setitem__((a,), M[(a,)] - v[2]), M)[2]),
        ('M-=dict{a:v0}', lambda M: M.__isub__({(a,): v[0]})),
        ('M+=dict{cd:v1}', lambda M: M.__iadd__({(c, d): v[1]})),
        ('M+=model{c:v1}', lambda M: M.__iadd__(T({(c,): v[1]}))),
        ('M*=dict{():v3}', lambda M: M.__imul__({(): v[3]})),
        ('M*=v3', lambda M: M.__imul__(v[3])),
        ('M*=dict{a:1}', lambda M: M.__imul__({(a,): 1})),
        ('M**=2', lambda M: M.__ipow__(2)),
        ('update{b:v2}', lambda M: M.update({(b,): v[2]}) or M),
        ('update(model{c:v1})', lambda M: M.update(T({(c,): v[1]})) or M),
        ('clear', lambda M: M.clear() or M),
        ('refresh', lambda M: M.refresh() or M),
        ('copy', lambda M: M.copy()),
    ]
    if tn in ('PCBO', 'PCSO'):
        m.append(('add_constraint_lt', lambda M: M.add_constraint_lt_zero({(a,): 1, (b,): 1, (c,): 1, (): -3})))
        m.append(('add_constraint_ne', lambda M: M.add_constraint_ne_zero({(a,): 1, (b,): -1})))
    return m


def true_vars(M):
    return {i for k in M for i in k}


def observe(tn, M):
    """bookkeeping observations on the current state (structural)"""
    obs = {}
    tv = true_vars(M)
    rep = M.variables
    obs['true variables subset of reported variables'] = (tv <= rep, {'true': sorted(map(repr, tv)), 'reported': sorted(map(repr, rep))})
    td = max([len(k) for k in M] + [-float('inf')])
    obs['true degree <= reported degree'] = (td <= M.degree, {'true': td, 'reported': M.degree})
    obs['num_binary_variables == |variables|'] = (M.num_binary_variables == len(rep), {'nbv': M.num_binary_variables, 'n': len(rep)})
    if tn in LABELLED:
        mp, rm = M.mapping, M.reverse_mapping
        ok = (set(mp) == rep and sorted(mp.values()) == list(range(M.num_binary_variables)) and len(rm) == len(mp)
              and all(rm.get(i) == l for l, i in mp.items()))
        obs['mapping/reverse_mapping are inverse bijections variables <-> 0..n-1'] = (
            ok, {'mapping': {repr(k): v for k, v in mp.items()}, 'reverse': {k: repr(v) for k, v in rm.items()}, 'variables': sorted(map(repr, rep)),
                 'nbv': M.num_binary_variables})
    else:
        obs['max_index covers the true variables'] = (all(isinstance(i, int) and i <= (M.max_index if M.max_index is not None else -1) for i in tv),
                                                      {'max_index': M.max_index, 'true': sorted(tv)})
    return obs


def make_history(ctx, tn, first, length, final='reduce', base=False):
    """all histories  MENU[first], MENU[s1], (MENU[s2])  on an empty model of type tn; s1,s2 solver integers (realised)"""
    T = O.types()[tn]
    spin = O.is_spin_name(tn)
    lab = ('a', 'b', 'c', 'd') if tn in LABELLED else (0, 1, 2, 3)
    v = [ctx.real_var('v%d' % i) for i in range(4)]
    nmenu = len(menu(tn, T, v, lab))
    sel = [ctx.int_var('s%d' % i, 0, nmenu - 1) for i in range(1, length)]

    def run():
        MEN = menu(tn, T, v, lab)
        idx = [first] + [int(s) for s in sel]
        names = [MEN[i][0] for i in idx]
        M = T()
        if base:
            # start from a model in which every variable of the highest-degree term also occurs in a lower-degree term
            a, b, c, d = lab
            M = T({(b,): 1, (c,): 2, (b, c): 3} if tn in O.DEG2_TYPES else {(b,): 1, (c, d): 2, (b, c, d): 3})
        log = []          # (step, check, ok, info)
        with warnings.catch_warnings():
            warnings.simplefilter('ignore')
            for step, i in enumerate(idx):
                before_poly = O.poly_of_model(M, spin)
                try:
                    M = MEN[i][1](M)
                except KeyError:
                    if tn in O.DEG2_TYPES and names[step] in ('M**=2', 'M*=dict{a:1}'):
                        # documented: degree-2 types reject results of degree > 2
                        log.append((step, 'degree-2 type rejects a degree-3 result with KeyError', True, {}))
                        return names[:step + 1], log, {}, None
                    raise
                for chk, (ok, info) in observe(tn, M).items():
                    log.append((step, chk, ok, info))
                if names[step] == 'refresh':
                    tv = true_vars(M)
                    log.append((step, 'refresh makes variables exact', M.variables == tv, {'vars': sorted(map(repr, M.variables)), 'true': sorted(map(repr, tv))}))
                    log.append((step, 'refresh makes degree exact', M.degree == max([len(k) for k in M] + [-float('inf')]), {'degree': M.degree}))
                    log.append((step, 'refresh leaves the function unchanged', ('polyeq', before_poly, O.poly_of_model(M, spin)), {}))
            # ---- final observers
            fin = {}
            if tn in ('PCBO', 'PCSO'):
                present = {x for x in true_vars(M) | set(M.variables) if isinstance(x, str) and x.startswith('__a')}
                M2 = M.copy()
                M2.add_constraint_lt_zero({('a',): 1, ('b',): 1, ('c',): 1, (): -3})
                new = {x for x in true_vars(M2) if isinstance(x, str) and x.startswith('__a')} - present
                need = {x for x in true_vars(T().add_constraint_lt_zero({('a',): 1, ('b',): 1, ('c',): 1, (): -3}))
                        if isinstance(x, str) and x.startswith('__a')}
                fin['constraint ancilla names are never reused'] = (len(new) == len(need), {'present_before': sorted(present), 'new': sorted(new),
                                                                                            'ancillas_needed': len(need)})
            red = None
            if tn in LABELLED:
                try:
                    if tn in ('QUBO', 'QUSO'):
                        D = M.to_qubo() if not spin else M.to_quso()
                    else:
                        D = M.to_qubo() if not spin else M.to_quso()
                    red = (D, M.mapping, M.num_binary_variables, dict(M))
                except Exception as e:       # noqa
                    fin['reduced form can be built'] = (False, {'exception': type(e).__name__, 'msg': str(e)[:200]})
            else:
                E = M.to_enumerated() if hasattr(M, 'to_enumerated') else None
        return names, log, fin, red

    def check(res):
        names, log, fin, red = res
        obs = []
        hist = ' ; '.join(names)
        for step, chk, ok, info in log:
            pre = ' ; '.join(names[:step + 1])
            if isinstance(ok, tuple) and ok[0] == 'polyeq':
                pa, pb = ok[1], ok[2]
                f = z3.And([ctx.z(pa.get(k, {})) == ctx.z(pb.get(k, {})) for k in set(pa) | set(pb)] or [z3.BoolVal(True)])
            else:
                f = bool(ok)
            obs.append(Ob('%s [after: %s]' % (chk, pre), f, info=dict(info, history=names[:step + 1]), sig='%s after %s' % (chk, names[step])))
        for chk, (ok, info) in fin.items():
            obs.append(Ob('%s [after: %s]' % (chk, hist), bool(ok), info=dict(info, history=names), sig='%s after %s' % (chk, names[-1])))
        if red is not None:
            D, mp, nbv, Md = red
            used = {i for k in D for i in k}
            tv = {i for k in Md for i in k}
            okmap = tv <= set(mp)
            obs.append(Ob('reduced form: every model variable has a mapping label [after: %s]' % hist, okmap, info={'history': names},
                          sig='reduced form labels after %s' % names[-1]))
            if okmap:
                mvals = set(mp.values())
                model_labels = {mp[l] for l in tv}
                anc = sorted(x for x in used if x not in model_labels)
                top = max(mvals | {-1})
                ok_anc = all(isinstance(x, int) and x > top and x not in mvals for x in anc)
                obs.append(Ob('reduced form: ancilla labels are strictly larger than every mapping label and unused [after: %s]' % hist, ok_anc,
                              info={'history': names, 'ancillas': anc, 'mapping': {repr(k): v for k, v in mp.items()}, 'nbv': nbv},
                              sig='ancilla labels fresh after %s' % names[-1]))
                if ok_anc and len(anc) <= 5 and all(isinstance(x, int) for x in used):
                    allidx = sorted(mvals | used)
                    sb = {i: z3.Bool('s%d' % i) for i in allidx}
                    Dv = O.zbool_value(ctx, D, sb, spin)
                    Mv = O.zbool_value(ctx, Md, sb, spin, lab2idx=mp)
                    obs.append(Ob('reduced form never undercuts the (un-refreshed) model [after: %s]' % hist, Dv >= Mv, info={'history': names},
                                  sig='reduced form value after %s' % names[-1]))
                    alts = [z3.substitute(Dv, *[(sb[x], z3.BoolVal(bv)) for x, bv in zip(anc, as_)]) == Mv for as_ in itertools.product((False, True), repeat=len(anc))]
                    obs.append(Ob('reduced form exact on an ancilla extension [after: %s]' % hist, z3.Or(alts) if len(alts) > 1 else (alts[0] if anc else Dv == Mv),
                                  info={'history': names}, sig='reduced form value after %s' % names[-1]))
        return obs
    return run, check


def jobs(tier, seed):
    J = []
    length = 2 if tier == 'quick' else 3
    for tn in O.BOOL_TYPES + O.SPIN_TYPES:
        T = O.types()[tn]
        nm = len(menu(tn, T, [0, 0, 0, 0], ('a', 'b', 'c', 'd')))
        for first in range(nm):
            J.append(dict(name='%s/first=%02d/len=%d' % (tn, first, length), sig=tn, module='vq.props.c14', make='make_history',
                          args=dict(tn=tn, first=first, length=length), budget_s=300 if tier == 'quick' else 2400, max_cex=40))
        names = [x[0] for x in menu(tn, T, [0, 0, 0, 0], ('a', 'b', 'c', 'd'))]
        for fn in (['big-=v1'] if tier == 'quick' else ['big-=v1', 'set big=v1']):
            J.append(dict(name='%s/base/first=%s/len=%d' % (tn, fn, length), sig=tn + '/base', module='vq.props.c14', make='make_history',
                          args=dict(tn=tn, first=names.index(fn), length=length, base=True), budget_s=300 if tier == 'quick' else 2400, max_cex=40))
    return J
