"""C11 -- annealers return well-formed results whose values match their states."""
from .. import oracle as O

LEVEL = 'model_checking'
ENGINE = 'symx+irsym'
TECHNIQUE = 'one symbolic path tree through the real Python front end, the CPython-stubbed IR of the C wrapper and the IR of the C kernels (symbolic integer couplings, uniform draws, random initial spins) + z3'
ASSUMPTIONS = [
    'couplings/fields/offset are symbolic integers (|c| <= 1000): doubles are modelled as exact reals, sound because every intermediate stays exactly representable',
    'the front end calls float() on couplings, so it runs on tagged concrete couplings (tag_k = 16*100^k); the bridge decodes every marshalled cell (balanced base 100) back into the rational combination of symbolic couplings it stands for; a cell that does not decode is reported',
    'CPython API used by _canneal.c is stubbed over an abstract heap of lists (PyArg_ParseTuple for the two literal formats, PyList_*, PyLong_*, PyFloat_*, Py_BuildValue); rand_double/rand_int/rand_init/exp are stubs (arbitrary draws); malloc succeeds',
    'model topologies, input types, schedules, num_anneals, initial-state modes, visiting order are enumerated',
]
STUBS = ['qubovert.sim._anneal.c_anneal_quso/c_anneal_puso -> irsym bridge (IR of the real _canneal.c + kernels)', 'CPython list/long/float API', 'rand_*, exp, malloc/realloc/free']
OUTSIDE = ['non-integer couplings (float rounding in C summation order)', 'N > 4', 'num_anneals > 2', 'anneal_duration > 2', 'CPython internals']
BOUNDS = {'quick': {'N': '<= 3 (4 for one chain)', 'num_anneals': [0, -1, 1, 2], 'schedules': ['explicit incl. zeros and []', 'linear', 'geometric'], 'input kinds': 'dict, labelled, Matrix (incl. index gaps, isolated variables, offset-only)'},
          'thorough': {'N': '<= 4', 'more topologies and stale models': True}}

CASES_Q = [
    # kind, mtype, keys, num_anneals, sched, init, in_order, stale
    ('quso', 'QUSOMatrix', [(0,), (0, 1), (1, 2), ()], 1, 'T0', 'mixed', 1, None),
    ('quso', 'QUSOMatrix', [(0,), (0, 1), (1, 3), ()], 2, 'T0', 'up', 1, None),          # index gap: 2 unused
    ('quso', 'QUSO', [('a',), ('a', 'b')], 1, 'T1', None, 0, None),
    ('quso', 'dict', [(0,), (0, 1), ()], 1, 'Thalf', None, 1, None),
    ('quso', 'QUSO', [('a',), ('a', 'b')], 1, 'empty', None, 1, None),
    ('quso', 'QUSO', [('a',), ('a', 'b'), ()], 0, 'T1', None, 1, None),
    ('quso', 'QUSOMatrix', [(0,), (0, 1)], -1, 'T1', None, 1, None),
    ('quso', 'QUSOMatrix', [()], 1, 'T1', None, 1, None),                                  # offset only
    ('quso', 'QUSO', [()], 2, 'T0', None, 1, None),
    ('quso', 'QUSOMatrix', [(2,), (0, 2)], 1, 'T10', 'down', 1, None),                      # isolated variable 1
    ('quso', 'QUSO', [('a',), ('a', 'b')], 1, 'geometric2', None, 1, None),
    ('quso', 'QUSOMatrix', [(0,), (0, 1)], 2, 'linear1', 'up', 1, None),
    ('quso', 'QUSO', [('a', 'b')], 1, 'T0', 'up', 1, 'cancelled-variable'),
    ('quso', 'QUSO', [('a', 'b')], 1, 'linear1', None, 1, 'all-cancelled'),
    ('quso', 'PCSO', [('a',), ('a', 'b')], 1, 'T0', 'mixed', 1, None),
    ('quso', 'QUSOMatrix', [(0,), (1, 2)], 1, 'T0', 'mixed', 1, None),                      # field on a spin without couplings
    ('quso', 'QUSOMatrix', [(1, 2), (0, 1), (0, 2)], 1, 'T0', 'mixed', 1, None),            # couplings inserted in non-lexicographic order
    ('quso', 'QUSO', [('b', 'c'), ('a', 'b'), ('a',)], 1, 'T1', 'up', 1, None),
    ('qubo', 'QUBOMatrix', [(1, 2), (0, 1), (2,)], 1, 'T0', 'down', 1, None),
    ('quso', 'QUSO', [('a',), ('b',)], 1, 'T1', None, 1, None),                             # purely linear
    ('quso', 'QUSO', [(1, 2), (2, 3), (3,)], 1, 'T0', 'mixed', 1, None),                    # 1-based integer labels on a labelled type
    ('quso', 'dict', [(2, 0), (0, 1), (2,)], 1, 'T0', 'up', 1, None),                       # labels 0..N-1 first seen in a different order
    ('puso', 'PUSO', [(2, 1, 3), (1,)], 1, 'T0', 'down', 1, None),
    ('qubo', 'QUBO', [(1, 2), (2,)], 1, 'T0', 'mixed', 1, None),
    ('pubo', 'dict', [(3, 1, 2), (3,)], 1, 'T0', 'up', 1, None),
    ('qubo', 'QUBO', [('a',), ('b', 'c')], 1, 'T0', 'down', 1, None),
    ('puso', 'PUSOMatrix', [(0, 1, 2), (1,), ()], 1, 'T0', 'mixed', 1, None),
    ('puso', 'PUSO', [('a', 'b', 'c'), ('a', 'd')], 1, 'Thalf', None, 1, None),
    ('puso', 'PUSOMatrix', [(0, 1, 3), (1, 3)], 2, 'T0', 'up', 1, None),                   # index gap
    ('puso', 'dict', [(0, 1, 2), (2,)], 1, 'T1', 'mixed', 0, None),
    ('puso', 'PUSOMatrix', [()], 1, 'T1', None, 1, None),
    ('puso', 'PCSO', [('a', 'b', 'c'), ()], 1, 'geometric1', 'down', 1, None),
    ('puso', 'PUSO', [('a', 'b', 'c')], 1, 'T0', 'up', 1, 'cancelled-variable'),
    ('puso', 'QUSOMatrix', [(0,), (0, 1)], 1, 'T0', 'up', 1, None),
    ('puso', 'PUSOMatrix', [(0, 2), (2,)], 1, 'T0', 'up', 1, None),                        # degree <= 2 given to the general annealer, index 1 unused
    ('pubo', 'PUBOMatrix', [(0, 3), (1,), ()], 1, 'T1', None, 1, None),                    # same for the boolean front end, index 2 unused
    ('qubo', 'QUBOMatrix', [(0,), (0, 1), ()], 1, 'T0', 'mixed', 1, None),
    ('qubo', 'QUBO', [('a',), ('a', 'b')], 2, 'T0', 'up', 1, None),
    ('qubo', 'dict', [(0,), (0, 1)], 1, 'Thalf', None, 1, None),
    ('qubo', 'QUBOMatrix', [()], 1, 'T1', None, 1, None),
    ('pubo', 'PUBO', [('a', 'b', 'c'), ('c',)], 1, 'T0', None, 1, None),
    ('pubo', 'PUBOMatrix', [(0, 1, 2), (0,), ()], 1, 'T0', 'down', 1, None),
    ('pubo', 'PCBO', [('a', 'b'), ('c',)], 1, 'linear2', 'mixed', 1, None),
]
CASES_T = CASES_Q + [
    ('quso', 'QUSOMatrix', [(0,), (1,), (0, 1), (1, 2), (2, 3), (0, 3)], 1, 'T00', 'mixed', 1, None),
    ('quso', 'QUSOMatrix', [(0,), (0, 1), (1, 2)], 2, 'T1', None, 1, None),
    ('quso', 'QUSO', [('a',), ('a', 'b'), ('b', 'c')], 1, 'T10', None, 0, None),
    ('puso', 'PUSOMatrix', [(0, 1, 2, 3), (1,), (0, 2)], 1, 'T00', 'mixed', 1, None),
    ('puso', 'PUSO', [('a', 'b', 'c'), ('a',)], 2, 'T1', None, 1, None),
    ('pubo', 'PUBOMatrix', [(0, 1, 2), (1, 2), ()], 2, 'T01', 'up', 1, None),
    ('qubo', 'QUBOMatrix', [(0,), (1,), (0, 1), (1, 2)], 1, 'T21', None, 0, None),
    ('pubo', 'PUBO', [('a', 'b', 'c', 'd')], 1, 'T0', 'mixed', 1, None),
]


TWICE = [('qubo', 'QUBO', [('a',), ('a', 'b'), ('b',)], 1, 'T0', 'mixed', 1), ('qubo', 'QUBOMatrix', [(0,), (0, 1), ()], 1, 'T0', 'up', 1), ('qubo', 'dict', [(0,), (0, 1), (1,)], 1, 'T0', 'down', 1),
         ('pubo', 'PUBO', [('a', 'b', 'c'), ('c',), ()], 1, 'T0', 'mixed', 1), ('pubo', 'dict', [(0, 1, 2), (2,)], 1, 'T0', 'up', 1),
         ('quso', 'QUSO', [('a',), ('a', 'b'), ()], 1, 'T0', 'mixed', 1), ('puso', 'PUSOMatrix', [(0, 1, 2), (1,)], 1, 'T0', 'up', 1)]


def jobs(tier, seed):
    J = []
    for i, (kind, mtype, keys, na, sched, init, io) in enumerate(TWICE):
        J.append(dict(name='twice/%02d/%s/%s/%s' % (i, kind, mtype, ','.join(''.join(map(str, k)) or '-' for k in keys)), sig='twice/%s/%s' % (kind, mtype), module='vq.props.pipeline',
                      make='make_pipeline', args=dict(prop='C11', kind=kind, mtype=mtype, keys=[list(k) for k in keys], num_anneals=na, sched=sched, init=init, in_order=io, twice=True),
                      budget_s=400 if tier == 'quick' else 2400, witness_all=0, witness_rate=0, max_cex=10))
    for i, (kind, mtype, keys, na, sched, init, io, stale) in enumerate(CASES_Q if tier == 'quick' else CASES_T):
        name = '%02d/%s/%s/%s/n=%d/%s/init=%s/order=%d%s' % (i, kind, mtype, ','.join(''.join(map(str, k)) or '-' for k in keys), na, sched, init, io, '/' + stale if stale else '')
        J.append(dict(name=name, sig='%s/%s' % (kind, mtype), module='vq.props.pipeline', make='make_pipeline',
                      args=dict(prop='C11', kind=kind, mtype=mtype, keys=[list(k) for k in keys], num_anneals=na, sched=sched, init=init, in_order=io, stale=stale),
                      budget_s=400 if tier == 'quick' else 2400, witness_all=0, witness_rate=0, max_cex=10))
    return J
