"""Whole-pipeline harness shared by C11, C12 (T=0 from a given initial state) and C17:

real Python front end (anneal_quso/puso/qubo/pubo)  ->  bridge  ->  IR of c_anneal_* in _canneal.c (CPython API stubbed)
->  IR of anneal_*, single_anneal_*, quso_value/puso_value  ->  back through _package_spin_results / AnnealResults.

One path tree: a C branch on a symbolic coupling is a decision like any Python-level one.
"""
import itertools
import warnings
from fractions import Fraction

import z3

from ..core import Ob
from ..symx import Sym, to_poly, padd
from .. import oracle as O
from .. import irsym
from ..irsym import UB, Unsupported, Bridge

UNIT = 16


def texts():
    return [irsym.wrapper_module()] + irsym.kernel_modules()


SCHEDULES = {
    'T0': [0.0], 'T00': [0.0, 0.0], 'T1': [1.0], 'T10': [1.0, 0.0], 'T01': [0.0, 1.0], 'Thalf': [0.5], 'empty': [], 'T21': [2.0, 1.0],
    'linear1': ('linear', 1), 'geometric2': ('geometric', 2), 'linear2': ('linear', 2), 'geometric1': ('geometric', 1),
}


def make_pipeline(ctx, prop, kind, mtype, keys, num_anneals, sched, init, in_order, stale=None, B=1000, seed=3, tempr=None, twice=False):
    """kind: quso|puso|qubo|pubo; mtype: type name or 'dict'; keys: list of label tuples (ints for Matrix types);
    init: None | 'up' | 'mixed' | 'partial'; stale: None | 'cancelled-variable' | 'all-cancelled'"""
    import qubovert as qv
    import qubovert.sim._anneal as A
    TY = O.types()
    T = TY[mtype]
    keys = [tuple(k) for k in keys]
    boolean = kind in ('qubo', 'pubo')
    syms = {k: ctx.int_var('c%d' % i, -B, B) for i, k in enumerate(keys)}
    tags = {k: UNIT * 100 ** i for i, k in enumerate(keys)}
    tagmap = {i: syms[k] for i, k in enumerate(keys)}
    watch = {('single_anneal_quso', 9), ('single_anneal_puso', 9)}
    mods = texts()
    fn = {'quso': A.anneal_quso, 'puso': A.anneal_puso, 'qubo': A.anneal_qubo, 'pubo': A.anneal_pubo}[kind]
    sc = SCHEDULES[sched]
    counter = [0]

    def native_validation(br):
        """re-run this path's bridge calls on a native build with scripted draws (sampled)"""
        counter[0] += 1
        if ctx.concrete is not None or not br.calls or not (counter[0] <= 12 or counter[0] % 8 == 0):
            return []
        from .. import native
        w = ctx.witness(ctx.pc_of_current)
        if w is None:
            return []
        out = []
        for fname, largs, result, events, defs in br.calls:
            try:
                ok, detail = native.validate_call(fname, largs, result, events, w, ctx.names, defs)
            except Exception as e:      # noqa
                ok, detail = False, 'native replay raised %s: %s' % (type(e).__name__, e)
            out.append(Ob('ENGINE: native build (real wrapper + kernels, scripted draws) agrees with the interpreter on this path', True if ok else (None if ok is None else False),
                          info={'detail': detail, 'witness': {k: str(v) for k, v in list(w.items())[:12]}}))
        return out

    def run():
        br = Bridge(ctx, tagmap, mods, watch_params=watch)
        br.UNIT = UNIT
        old = (A.c_anneal_quso, A.c_anneal_puso)
        A.c_anneal_quso = lambda *a: br.call('c_anneal_quso', *a)
        A.c_anneal_puso = lambda *a: br.call('c_anneal_puso', *a)
        try:
            with warnings.catch_warnings():
                warnings.simplefilter('ignore')
                M = T({k: tags[k] for k in keys})
                if stale == 'cancelled-variable' and hasattr(M, 'refresh'):
                    extra = (max([i for k in keys for i in k] + [0]) + 1,) if mtype in O.MATRIX_TYPES else ('stale',)
                    M[extra] += 1; M[extra] -= 1
                if stale == 'all-cancelled' and hasattr(M, 'refresh'):
                    for k in list(M): M[k] -= M[k]
                snap = dict(M) if isinstance(M, dict) else None
                if mtype in O.MATRIX_TYPES:
                    mv = M.max_index
                    vars_ = set(range(mv + 1)) if mv is not None else set()
                elif mtype == 'dict':
                    vars_ = {i for k in keys for i in k}
                else:
                    vars_ = set(M.variables)
                istate = None
                if init is not None:
                    up = 0 if boolean else 1
                    dn = 1 if boolean else -1
                    vl = sorted(vars_, key=repr)
                    if init == 'up': istate = {v: up for v in vl}
                    elif init == 'mixed': istate = {v: (up if i % 2 == 0 else dn) for i, v in enumerate(vl)}
                    elif init == 'down': istate = {v: dn for v in vl}
                kw = dict(num_anneals=num_anneals, initial_state=dict(istate) if istate is not None else None, in_order=in_order, seed=seed)
                if isinstance(sc, tuple):
                    kw.update(schedule=sc[0], anneal_duration=sc[1])
                    if tempr is not None: kw['temperature_range'] = tuple(tempr)
                else:
                    kw['schedule'] = list(sc)
                    if len(sc) >= 2:
                        kw['anneal_duration'] = 1      # documented as ignored when an explicit schedule is given: every entry must still be used
                try:
                    if twice:
                        # history: anneal, edit the same object in place (swap two coefficients, move the offset), anneal again;
                        # the second result is the one judged, against the edited model
                        fn(M, **kw)
                        br.calls.clear()
                        k0, k1 = keys[0], keys[-1]
                        v0, v1 = M[k0], M[k1]
                        M[k0], M[k1] = v1, v0
                        snap = dict(M) if isinstance(M, dict) else None
                    res = fn(M, **kw)
                except UB as e:
                    return dict(status='UB', msg=str(e), br=br)
                except Unsupported as e:
                    raise
                unchanged = (snap is None) or dict(M) == snap
                return dict(status='ok', res=res, vars=vars_, br=br, istate=istate, unchanged=unchanged, events=list(br.last.events) if br.last else [],
                            defs=dict(br.last.defs) if br.last else {}, offset_tagged=None)
        finally:
            A.c_anneal_quso, A.c_anneal_puso = old

    def model_energy(state):
        e = 0
        if stale == 'all-cancelled' and mtype != 'dict':
            return 0
        coef = dict(syms)
        if twice:
            coef[keys[0]], coef[keys[-1]] = syms[keys[-1]], syms[keys[0]]
        for k in keys:
            if boolean:
                t = coef[k] if all(state[i] for i in k) else 0
            else:
                t = coef[k]
                for i in k: t = t * state[i]
            e = e + t
        return e

    def decode_value(br, v):
        vp = dict(to_poly(v)); const = vp.pop((), 0)
        return Sym(vp) + br.lift(const)

    def check(out):
        obs = []
        br = out['br']
        if not hasattr(ctx, 'extra_functions'): ctx.extra_functions = set()
        ctx.extra_functions |= {'C-IR:' + n for n in br.called}
        if out['status'] == 'UB':
            return [Ob('no undefined behaviour / memory error / leak in the extension', False, info={'ub': out['msg']}, sig='UB: ' + out['msg'].split(':')[0][:60])]
        obs.append(Ob('no undefined behaviour / memory error / leak in the extension', True))
        obs += native_validation(br)
        res = out['res']
        if prop in ('C11', 'C12', 'C17'):
            from qubovert.sim import AnnealResults
            obs.append(Ob('returns an AnnealResults', type(res) is AnnealResults, info={'type': type(res).__name__}))
            obs.append(Ob('returns exactly max(num_anneals, 0) results', len(res) == max(num_anneals, 0), info={'len': len(res), 'num_anneals': num_anneals}))
            obs.append(Ob('model argument unchanged', out['unchanged']))
        if prop == 'C11':
            dom = (0, 1) if boolean else (1, -1)
            vals = []
            for ri, r in enumerate(res):
                obs.append(Ob('result %d: state assigns exactly the model\'s variables' % ri, set(r.state) == out['vars'],
                              info={'got': sorted(map(repr, r.state)), 'want': sorted(map(repr, out['vars']))}, sig='state keys'))
                obs.append(Ob('result %d: state values are in the variable domain' % ri, all(v in dom and isinstance(v, int) for v in r.state.values()),
                              info={'state': repr(r.state)}, sig='state values'))
                obs.append(Ob('result %d: spin flag' % ri, r.spin == (not boolean), sig='spin flag'))
                if set(r.state) == out['vars'] and all(v in dom for v in r.state.values()):
                    try:
                        val = decode_value(br, r.value)
                    except UB as e:
                        obs.append(Ob('result %d: value decodes' % ri, False, info={'why': str(e)}, sig='value')); continue
                    st = dict(r.state)
                    obs.append(Ob('result %d: value equals the model at the state (offset included)' % ri, ctx.z(to_poly(val - model_energy(st))) == 0, sig='value'))
                    vals.append(val)
            if len(res):
                bv = None
                try:
                    bv = decode_value(br, res.best.value)
                except Exception:       # noqa
                    pass
                obs.append(Ob('best is one of the results', any(r is res.best for r in res), sig='best'))
                if bv is not None and vals:
                    obs.append(Ob('best has the smallest value', z3.And([ctx.z(bv) <= ctx.z(v) for v in vals]), sig='best'))
            else:
                obs.append(Ob('no results: best is None', res.best is None, sig='best'))
        if prop == 'C12' and out['istate'] is not None and not isinstance(sc, tuple) and all(t == 0 for t in sc):
            # T = 0 from the supplied initial state: every anneal starts from it; step-by-step analysis of the recorded events
            N = len(out['vars'])
            order = sorted(out['vars'], key=repr)
            if mtype in O.MATRIX_TYPES:
                idx_of = {v: v for v in order}
            else:
                idx_of = None
            evs = out['events']
            steps, cur = [], None
            for ev in evs:
                if ev[0] == 'pload': cur = []; steps.append(cur)
                elif ev[0] == 'ret': cur = None          # end of this anneal's sweeps: what follows is not part of a step
                elif cur is not None: cur.append(ev)
            nsw = len(sc)
            obs.append(Ob('one Metropolis step per (anneal, sweep, position)', len(steps) == num_anneals * nsw * N, info={'steps': len(steps), 'want': num_anneals * nsw * N}))
            if len(steps) == num_anneals * nsw * N and idx_of is not None and in_order:
                spin_init = {v: (1 - 2 * out['istate'][v] if boolean else out['istate'][v]) for v in order}
                spin_keys = None
                for a in range(num_anneals):
                    state = dict(spin_init)
                    e0 = None
                    for s in range(nsw * N):
                        i = s % N
                        stores = [e for e in steps[a * nsw * N + s] if e[0] == 'store' and e[1] == 'state']
                        # stores to the working `state` array: a flip writes -state[i] at position i
                        flips = [e for e in stores if e[2] == i]
                        if flips:
                            obs.append(Ob('anneal %d step %d: a flip negates the visited spin of the state reached from the supplied initial state' % (a, s),
                                          flips[0][3] == -state[i], info={'written': repr(flips[0][3]), 'expected': -state[i]}, sig='flip from supplied initial state'))
                            state[i] = -state[i]
                    r = res[a]
                    fin = {v: (1 - 2 * r.state[v] if boolean else r.state[v]) for v in order}
                    obs.append(Ob('anneal %d: final state is the product of the accepted flips from the supplied initial state' % a, fin == state,
                                  info={'final': repr(fin), 'tracked': repr(state)}, sig='final state from supplied initial state'))
                    if not boolean:
                        val = decode_value(br, r.value)
                        ei = model_energy({v: spin_init[v] for v in order})
                        obs.append(Ob('anneal %d: T = 0 value <= value of the supplied initial state' % a, ctx.z(val) <= ctx.z(ei), sig='T=0 energy vs initial state'))
        return obs
    return run, check
