"""C06 -- logical constraint methods penalise exactly the violating assignments."""
import itertools
import warnings

import z3

from ..core import Ob
from ..symx import Sym, to_poly, padd
from .. import oracle as O

LEVEL = 'model_checking'
ASSUMPTIONS = [
    'exact rational arithmetic; lam is any real > 0 (symbolic; the added coefficients are lam times integers, so the queries are linear)',
    'expression operands are either nested sat expressions or *solver-constrained polynomials*: integer coefficients in [-2,2] over two labels, assumed {0,1}-valued on all four assignments -- every such polynomial is covered (the solver enumerates them), not a menu',
    'method, arity and the kind of each operand position (label, shared label, nested expression, constrained polynomial) are enumerated',
]
OUTSIDE = ['arity > 5', 'operand polynomials over more than 2 labels or with coefficients beyond +-2', 'operands that are not {0,1}-valued (undocumented use)']
BOUNDS = {'quick': {'arity': 'minimum .. minimum+2 (<=4)', 'operand patterns': ['labels', 'polynomial + labels (one shared)', 'nested NOT/AND expressions']},
          'thorough': {'arity': 'up to 5', 'operand patterns': 'all positions of the polynomial operand; two polynomial operands'}}

GATES = ['AND', 'OR', 'XOR', 'NAND', 'NOR', 'XNOR', 'NOT', 'BUFFER']
MIN_ARITY = {'AND': 1, 'OR': 1, 'XOR': 1, 'NAND': 1, 'NOR': 1, 'XNOR': 1, 'NOT': 1, 'BUFFER': 1}
MIN_ARITY_EQ = {'AND': 2, 'OR': 2, 'XOR': 1, 'NAND': 2, 'NOR': 2, 'XNOR': 1, 'NOT': 1, 'BUFFER': 1}


def truth(g, vals):
    if g == 'AND': return all(vals)
    if g == 'OR': return any(vals)
    if g == 'XOR': return sum(vals) % 2 == 1
    if g == 'NAND': return not all(vals)
    if g == 'NOR': return not any(vals)
    if g == 'XNOR': return sum(vals) % 2 == 0
    if g == 'NOT': return not vals[0]
    if g == 'BUFFER': return bool(vals[0])


def make_logic(ctx, g, eq, kinds):
    """kinds: one code per operand (for eq_: the first is the output `a`):
       'l' fresh label, 's' the label p shared with the polynomial, 'P' constrained polynomial over (p,q), 'n' nested NOT(label), 'a' nested AND(label,label)"""
    import qubovert as qv
    from qubovert import sat
    U = O.universe(['p', 'q'], 2)
    npoly = kinds.count('P')
    polys = []
    for j in range(npoly):
        cs = {k: ctx.int_var('c%d_%d' % (j, i), -2, 2) for i, k in enumerate(U)}
        for a in O.assigns(['p', 'q']):
            v = ctx.z(O.bool_poly(cs, a))
            ctx.add_base(z3.Or(v == 0, v == 1))
        polys.append(cs)
    lam = ctx.real_var('lam', 0, lo_strict=True)
    # operand descriptors
    fresh = iter(['r', 's', 't', 'u', 'v', 'w', 'y', 'z'])
    desc = []
    pi = 0
    for kd in kinds:
        if kd == 'l': desc.append(('label', next(fresh)))
        elif kd == 's': desc.append(('label', 'p'))
        elif kd == 'P': desc.append(('poly', pi)); pi += 1
        elif kd == 'm': desc.append(('not', 'p'))          # NOT of the shared label p (contradiction / tautology with 's')
        elif kd == 'n': desc.append(('not', next(fresh)))
        elif kd == 'a': desc.append(('and', next(fresh), next(fresh)))
    labels = sorted({'p', 'q'} * (1 if npoly else 0) | {x for d in desc for x in d[1:] if isinstance(x, str)}) if False else None
    labset = set()
    if npoly: labset |= {'p', 'q'}
    for d in desc:
        if d[0] != 'poly': labset |= set(d[1:])
    labels = sorted(labset)

    def run():
        ops = []
        for d in desc:
            if d[0] == 'label': ops.append(d[1])
            elif d[0] == 'poly': ops.append({k: int(v) for k, v in polys[d[1]].items()})      # realise this polynomial
            elif d[0] == 'not': ops.append(sat.NOT(d[1]))
            elif d[0] == 'and': ops.append(sat.AND(d[1], d[2]))
        snaps = [O.snapshot(o) if isinstance(o, dict) else None for o in ops]
        H = qv.PCBO()
        with warnings.catch_warnings():
            warnings.simplefilter('ignore')
            ret = getattr(H, 'add_constraint_' + ('eq_' if eq else '') + g)(*ops, lam=lam)
        valid = {}
        for a in O.assigns(labels):
            valid[tuple(a[l] for l in labels)] = bool(H.is_solution_valid(dict(a)))
        unchanged = [O.snapshot(o) if isinstance(o, dict) else None for o in ops] == snaps
        # history: a sibling derived from H gets a further constraint of the same kind; H's verdicts must not change
        with warnings.catch_warnings():
            warnings.simplefilter('ignore')
            for S in (H.copy(), qv.PCBO(H), H + 0):
                S.add_constraint_eq_zero({(labels[0],): 1}, lam=lam)
                S.add_constraint_NOT(labels[-1], lam=lam)
        valid2 = {tuple(a[l] for l in labels): bool(H.is_solution_valid(dict(a))) for a in O.assigns(labels)}
        # history: the very same constraint is added a second time (e.g. to strengthen it): its penalty must be added again
        H1 = {k: v for k, v in H.items()}
        with warnings.catch_warnings():
            warnings.simplefilter('ignore')
            getattr(H, 'add_constraint_' + ('eq_' if eq else '') + g)(*ops, lam=lam)
        added2 = {}
        for k in set(H) | set(H1):
            d = H.get(k, 0) - H1.get(k, 0)
            added2[k] = d
        return H1, ret is H, valid, unchanged, ops, valid2, added2

    def opval(d, a):
        if d[0] == 'label': return a[d[1]]
        if d[0] == 'not': return 1 - a[d[1]]
        if d[0] == 'and': return a[d[1]] * a[d[2]]
        return None

    def check(res):
        H, ret_self, valid, unchanged, ops, valid2, added2 = res
        same2 = [ctx.z(added2.get(k, 0)) == ctx.z(H.get(k, 0)) for k in set(added2) | set(H)]
        obs = [Ob('returns self', ret_self), Ob('operands unchanged', unchanged),
               Ob('adding the same constraint a second time adds the same penalty again', z3.And(same2) if same2 else True, sig='second identical constraint'),
               Ob('is_solution_valid unaffected by constraints added to copies of the model', valid == valid2, sig='is_solution_valid after sibling edit')]
        hv = {i for k in H for i in k}
        obs.append(Ob('no ancilla / foreign variables', hv <= set(labels), info={'vars': sorted(map(repr, hv))}))
        zl = ctx.z(lam)
        any_viol = False
        # operand polynomials are concrete on this path (realised); evaluate them as numbers
        for a in O.assigns(labels):
            vals = []
            for d, o in zip(desc, ops):
                if d[0] == 'poly':
                    pv = O.bool_poly(o, a)
                    vals.append(int(pv.get((), 0)))
                else:
                    vals.append(opval(d, a))
            if eq:
                ok = bool(vals[0]) == truth(g, vals[1:])
            else:
                ok = truth(g, vals)
            any_viol = any_viol or not ok
            F = ctx.z(O.bool_poly(H, a))
            xs = tuple(a[l] for l in labels)
            obs.append(Ob('penalty is %s @%s' % ('0 where the relation holds' if ok else '>= lam where it fails', xs), (F == 0) if ok else (F >= zl),
                          sig='penalty value (%s)' % ('satisfied' if ok else 'violated')))
            obs.append(Ob('is_solution_valid @%s' % (xs,), valid[xs] == ok, info={'got': valid[xs], 'want': ok}, sig='is_solution_valid'))
        if any_viol:
            obs.append(Ob('twin: some assignment is penalised', z3.Or([ctx.z(O.bool_poly(H, a)) > 0 for a in O.assigns(labels)]), expect_sat=True))
        return obs
    return run, check


def jobs(tier, seed):
    J = []
    def add(g, eq, kinds):
        name = '%s%s/%s' % ('eq_' if eq else '', g, kinds)
        J.append(dict(name=name, sig=('eq_' if eq else '') + g, module='vq.props.c06', make='make_logic', args=dict(g=g, eq=eq, kinds=kinds),
                      budget_s=300 if tier == 'quick' else 1800))
    for g in GATES:
        unary = g in ('NOT', 'BUFFER')
        for eq in (False, True):
            lo = (MIN_ARITY_EQ if eq else MIN_ARITY)[g]
            pre = 'l' if eq else ''
            if unary:
                pats = ['l', 'P', 'n', 'a']
                for p in pats:
                    add(g, eq, pre + p)
                if eq:
                    add(g, eq, 'P' + 'l'); add(g, eq, 'P' + 's'); add(g, eq, 'n' + 'a'); add(g, eq, 'l' + 'a'); add(g, eq, 'a' + 'l')
                    if tier != 'quick': add(g, eq, 'PP')
                continue
            hi = lo + 2 if tier == 'quick' else 5
            for n in range(lo, min(hi, 5) + 1):
                add(g, eq, pre + 'l' * n)
                if n <= (3 if tier == 'quick' else 4):
                    add(g, eq, pre + 'P' + 's' * min(1, n - 1) + 'l' * max(0, n - 2))
                    if n >= 2:
                        add(g, eq, pre + 'l' * (n - 1) + 'P')
                        add(g, eq, pre + 'n' + 'a' + 'l' * (n - 2))
            add(g, eq, pre + 'sml')
            add(g, eq, pre + 'msl')
            add(g, eq, pre + 'lsm')
            for rep in ('ss', 'ssl', 'lss', 'sls'):       # the same plain label in two operand positions
                add(g, eq, pre + rep)
            if eq:
                add(g, eq, 'sls')                          # the output label is also an input
            if eq:
                add(g, eq, 'P' + 'l' * max(lo, 2))
                add(g, eq, 'n' + 'l' * max(lo, 2))
            if tier != 'quick':
                add(g, eq, pre + 'PP')
                add(g, eq, pre + 'lPl')
    return J
