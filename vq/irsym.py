"""irsym -- bounded symbolic interpreter for the clang -O0 LLVM-14 IR (typed pointers) of qubovert's C annealer.

ints   -> Python int or integer-valued Sym (mathematical integers; every nsw result, sext/trunc is range-checked)
double -> Fraction / Sym (exact reals; sound only while every value is exactly representable: integer couplings)
i1     -> decided eagerly (a path fork through the shared symx.Ctx)
ptr    -> Ptr(object, byte offset); every access is checked for liveness, bounds, initialisation and width

Anything outside the supported instruction set raises Unsupported ("cannot encode"): never a verdict.
"""
import os
import re
import struct
import subprocess
from fractions import Fraction

import z3

from .symx import Sym, Ctx, to_poly, padd, PathAbort

REPO = os.environ.get('QUBOVERT_REPO', '/repo')
SRC = os.path.join(REPO, 'qubovert', 'sim', 'src')


class UB(Exception):
    """undefined behaviour / memory error reachable on this path"""


class Unsupported(Exception):
    pass


class StepCap(Exception):
    pass


_IR_CACHE = {}


def pyinclude():
    import sysconfig
    return sysconfig.get_paths()['include']


def emit_ir(path, extra_inc=()):
    """IR text of one C file of the *current working tree* (never cached across processes; cached by mtime inside one)"""
    st = os.stat(path)
    key = (path, st.st_mtime_ns, st.st_size)
    if key not in _IR_CACHE:
        cmd = ['clang-14' if _have('clang-14') else 'clang', '-O0', '-S', '-emit-llvm', '-Xclang', '-disable-O0-optnone', '-ffp-contract=off',
               '-I' + SRC] + ['-I' + i for i in extra_inc] + [path, '-o', '-']
        r = subprocess.run(cmd, capture_output=True, text=True)
        if r.returncode != 0:
            raise Unsupported('clang failed on %s: %s' % (path, r.stderr[-500:]))
        _IR_CACHE[key] = r.stdout
    return _IR_CACHE[key]


def _have(x):
    from shutil import which
    return which(x) is not None


def kernel_modules():
    return [emit_ir(os.path.join(SRC, 'anneal_quso.c')), emit_ir(os.path.join(SRC, 'anneal_puso.c'))]


def wrapper_module():
    return emit_ir(os.path.join(REPO, 'qubovert', 'sim', '_canneal.c'), [pyinclude()])


def random_module():
    return emit_ir(os.path.join(SRC, 'random.c'))


class Obj:
    def __init__(self, size, kind, name=''):
        self.size, self.kind, self.name = size, kind, name
        self.cells = {}      # byte offset -> (width, value)
        self.freed = False
        self.param = None
        self.zeroed = False      # calloc: bytes not written yet read as zero


class Ptr:
    __slots__ = ('obj', 'off')
    def __init__(self, obj, off): self.obj, self.off = obj, off
    def __repr__(self): return 'Ptr(%s+%s)' % (self.obj.name if self.obj else None, self.off)


NULL = Ptr(None, 0)


def sizeof(ty, structs):
    ty = ty.strip()
    if ty.endswith('*'): return 8
    if ty == 'double': return 8
    if ty == 'float': return 4
    m = re.fullmatch(r'i(\d+)', ty)
    if m: return max(1, int(m.group(1)) // 8)
    if ty.startswith('%struct.'):
        return sum(sizeof(t, structs) for t in structs[ty])
    if ty.startswith('{'):
        return sum(sizeof(t, structs) for t in split_top(ty[1:-1]))
    m = re.fullmatch(r'\[(\d+) x (.*)\]', ty)
    if m: return int(m.group(1)) * sizeof(m.group(2), structs)
    raise Unsupported('sizeof ' + ty)


def split_top(s):
    out, depth, cur = [], 0, ''
    for ch in s:
        if ch in '({[<': depth += 1
        if ch in ')}]>': depth -= 1
        if ch == ',' and depth == 0:
            out.append(cur.strip()); cur = ''
        else:
            cur += ch
    if cur.strip(): out.append(cur.strip())
    return out


class Func:
    def __init__(self, name, params, ret):
        self.name, self.params, self.ret = name, params, ret
        self.blocks = {}
        self.order = []


def parse_module(text):
    structs, funcs, declared, globs, gvars = {}, {}, set(), {}, []
    cur = None; lab = None
    for line in text.splitlines():
        line = line.split(' ;')[0].rstrip() if not line.startswith(';') else ''
        if not line.strip():
            continue
        if cur is None:
            m = re.match(r'(@[\w.]+) = .*?constant \[\d+ x i8\] c"(.*)"', line)
            if m:
                raw = m.group(2); out = bytearray(); i = 0
                while i < len(raw):
                    if raw[i] == '\\':
                        out.append(int(raw[i + 1:i + 3], 16)); i += 3
                    else:
                        out.append(ord(raw[i])); i += 1
                globs[m.group(1)] = bytes(out); continue
            if line.startswith('@'):
                m = re.match(r'(@[\w.]+) = (.*)', line)
                gvars.append((m.group(1), m.group(2))); continue
            m = re.match(r'(%struct\.[\w.]+) = type (?:opaque|\{(.*)\})', line)
            if m:
                structs[m.group(1)] = split_top(m.group(2) or ''); continue
            m = re.match(r'define .*?(\S+|\{[^}]*\}) @([\w.]+)\((.*)\) (?:#\d+ )?(?:!dbg !\d+ )?\{', line)
            if m:
                params = []
                for p in split_top(m.group(3)):
                    toks = p.split()
                    params.append((toks[0] if not p.startswith('{') else p[:p.index('}') + 1], toks[-1]))
                cur = Func(m.group(2), params, m.group(1))
                funcs[cur.name] = cur
                lab = 'entry'; cur.blocks[lab] = []; cur.order.append(lab)
                continue
            if line.startswith('declare'):
                m = re.search(r'@([\w.]+)\(', line); declared.add(m.group(1)); continue
            continue
        if line == '}':
            cur = None; continue
        m = re.match(r'^(\d+|[\w.]+):', line)
        if m:
            lab = m.group(1); cur.blocks[lab] = []; cur.order.append(lab); continue
        cur.blocks[lab].append(line.strip())
    return structs, funcs, declared, globs, gvars


_PARSE_CACHE = {}


def parsed(text):
    k = hash(text)
    if k not in _PARSE_CACHE:
        _PARSE_CACHE[k] = parse_module(text)
    return _PARSE_CACHE[k]


def module_facts(texts):
    """static facts used by C12/C17: external symbols reachable, writable globals"""
    declared, defined, writable, callgraph = set(), set(), [], {}
    for t in texts:
        st, fu, de, gl, gv = parsed(t)
        declared |= de; defined |= set(fu)
        for name, rest in gv:
            if ' constant ' not in ' ' + rest and 'constant' not in rest.split('[')[0]:
                writable.append(name)
        for f in fu.values():
            cs = set()
            for b in f.blocks.values():
                for ins in b:
                    m = re.search(r'call .*?@([\w.]+)\(', ins)
                    if m: cs.add(m.group(1))
            callgraph[f.name] = cs
    return dict(declared=sorted(declared - defined), writable_globals=writable, callgraph=callgraph)


def reachable(callgraph, roots):
    seen, todo = set(), list(roots)
    while todo:
        f = todo.pop()
        if f in seen: continue
        seen.add(f)
        todo += list(callgraph.get(f, ()))
    return seen


class Interp:
    STEP_CAP = 5 * 10 ** 6

    def __init__(self, texts, ctx, stubs, watch_params=()):
        self.structs, self.funcs, self.declared, self.globs = {}, {}, set(), {}
        for t in (texts if isinstance(texts, (list, tuple)) else [texts]):
            st, fu, de, gl, gv = parsed(t)
            self.structs.update(st); self.funcs.update(fu); self.declared |= de; self.globs.update(gl)
        self.ctx = ctx
        self.stubs = stubs
        self.events = []
        self.nobj = 0
        self.steps = 0
        self.live = []
        self.watch = set(watch_params)
        self.watch_args = {('single_anneal_quso', 1): 'state', ('single_anneal_puso', 1): 'state'}
        self.defs = {}           # variable index -> ('div', n_poly, d_poly) | ('exp', arg_poly)
        self.called = set()
        self.checks = dict(loads=0, stores=0, range_checks=0, frees=0)

    # ---- memory
    def alloc(self, size, kind, name=''):
        if isinstance(size, Sym):
            size = int(size)
        if size < 0:
            raise UB('allocation of negative size %d' % size)
        self.nobj += 1
        o = Obj(size, kind, name or '%s%d' % (kind, self.nobj))
        self.live.append(o)
        return Ptr(o, 0)

    def _off(self, p):
        off = p.off
        if isinstance(off, Sym):
            off = int(off)     # realise (fork over the feasible offsets)
        return off

    def _chk(self, p, width, what):
        if not isinstance(p, Ptr): raise Unsupported('%s through non-pointer %r' % (what, p))
        if p.obj is None: raise UB('%s through NULL' % what)
        if p.obj.freed: raise UB('%s after %s of %s' % (what, 'free' if p.obj.kind == 'heap' else 'end of scope', p.obj.name))
        off = self._off(p)
        if off < 0 or off + width > p.obj.size:
            raise UB('%s out of bounds: %s object %s of size %d, offset %d, width %d' % (what, p.obj.kind, p.obj.name, p.obj.size, off, width))
        return off

    def load(self, p, width, ty=None):
        self.checks['loads'] += 1
        off = self._chk(p, width, 'load')
        if off not in p.obj.cells and p.obj.zeroed and not any(o < off + width and o + w > off for o, (w, _) in p.obj.cells.items()):
            if ty is not None and ty.strip().endswith('*'): return NULL
            if ty is not None and ty.strip() == 'double': return Fraction(0)
            return 0
        if off not in p.obj.cells:
            raise UB('load of uninitialised memory %s+%d (%s object)' % (p.obj.name, off, p.obj.kind))
        w, v = p.obj.cells[off]
        if w != width: raise Unsupported('type-punned load')
        return v

    def store(self, p, width, v):
        self.checks['stores'] += 1
        off = self._chk(p, width, 'store')
        p.obj.cells[off] = (width, v)
        if p.obj.kind == 'watched' or getattr(p.obj, 'watched', False):
            self.events.append(('store', p.obj.name, off // width, v))

    # ---- values
    def val(self, tok, env):
        tok = tok.strip()
        if tok.startswith('%'):
            return env[tok]
        if tok.startswith('@'):
            return ('global', tok)
        if tok == 'null': return NULL
        if tok in ('true', 'false'): return tok == 'true'
        if tok == 'undef': raise Unsupported('undef')
        if re.fullmatch(r'-?\d+', tok): return int(tok)
        if re.fullmatch(r'-?\d+\.\d+e[+-]\d+', tok): return Fraction(float(tok))
        if tok.startswith('0x'):
            return Fraction(struct.unpack('>d', bytes.fromhex(tok[2:].rjust(16, '0')))[0])
        raise Unsupported('operand ' + tok)

    def decide(self, a, op, b):
        if isinstance(a, (int, Fraction)) and isinstance(b, (int, Fraction)) and not isinstance(a, bool):
            return {'<': a < b, '<=': a <= b, '==': a == b, '!=': a != b, '>': a > b, '>=': a >= b}[op]
        return self.ctx.decide_poly(padd(to_poly(a), to_poly(b), -1), op)

    def check_range(self, v, bits, what):
        self.checks['range_checks'] += 1
        lo, hi = -(1 << (bits - 1)), (1 << (bits - 1)) - 1
        if isinstance(v, int):
            if not lo <= v <= hi: raise UB('signed overflow / value out of range of i%d in %s' % (bits, what))
        else:
            if self.decide(v, '<', lo) or self.decide(v, '>', hi):
                raise UB('signed overflow / value out of range of i%d in %s' % (bits, what))

    # ---- execution
    def call(self, name, args):
        if name in self.stubs:
            self.called.add('stub:' + name)
            return self.stubs[name](self, *args)
        if name not in self.funcs:
            raise Unsupported('call to undefined ' + name)
        self.called.add(name)
        f = self.funcs[name]
        for (fn_, ai), label in self.watch_args.items():
            if fn_ == name and isinstance(args[ai], Ptr) and args[ai].obj is not None:
                args[ai].obj.watched = True; args[ai].obj.name = label
        env = {p[1]: a for p, a in zip(f.params, args)}
        frame_objs = []
        lab, prev = 'entry', None
        while True:
            for ins in f.blocks[lab]:
                self.steps += 1
                if self.steps > self.STEP_CAP: raise StepCap()
                r = self.exec(ins, env, prev, frame_objs, f)
                if r is None: continue
                if r[0] == 'br':
                    prev, lab = lab, r[1]; break
                if r[0] == 'ret':
                    for o in frame_objs: o.freed = True
                    if name in ('single_anneal_quso', 'single_anneal_puso'):
                        self.events.append(('ret', name))
                    return r[1]
            else:
                raise Unsupported('fell off block')

    def exec(self, ins, env, prev, frame_objs, f):
        m = re.match(r'(%[\w.]+) = (.*)', ins)
        dst, rhs = (m.group(1), m.group(2)) if m else (None, ins)
        op = rhs.split()[0]
        S = self.structs
        if op == 'alloca':
            ty = rhs[len('alloca '):].split(', align')[0]
            p = self.alloc(sizeof(ty, S), 'stack', f.name + dst); frame_objs.append(p.obj); env[dst] = p
        elif op == 'store':
            m = re.match(r'store (.+?) (\S+), (.+?)\* (\S+), align', rhs)
            ty = m.group(1)
            tgt = self.val(m.group(4), env)
            # remember which stack slot holds which parameter (to delimit Metropolis steps by parameter loads)
            if self.watch and m.group(2).startswith('%') and isinstance(tgt, Ptr) and tgt.obj is not None:
                names = [p[1] for p in f.params]
                if m.group(2) in names:
                    tgt.obj.param = (f.name, names.index(m.group(2)))
            if (ty.startswith('{') or ty.startswith('%struct.')) and not ty.endswith('*'):
                v = self.val(m.group(2), env)
                off0 = self._chk(tgt, sizeof(ty, S), 'store')
                fields = S[ty] if ty.startswith('%struct.') else split_top(ty[1:-1])
                o = 0
                for fty, fv in zip(fields, v):
                    tgt.obj.cells[off0 + o] = (sizeof(fty, S), fv); o += sizeof(fty, S)
            else:
                self.store(tgt, sizeof(ty, S), self.val(m.group(2), env))
        elif op == 'load':
            m = re.match(r'load (.+?), (.+?)\* (\S+), align', rhs)
            p = self.val(m.group(3), env)
            if self.watch and isinstance(p, Ptr) and p.obj is not None and p.obj.param in self.watch:
                self.events.append(('pload',) + p.obj.param)
            ty = m.group(1)
            if (ty.startswith('{') or ty.startswith('%struct.')) and not ty.endswith('*'):
                fields = S[ty] if ty.startswith('%struct.') else split_top(ty[1:-1])
                vals, o = [], 0
                for fty in fields:
                    vals.append(self.load(Ptr(p.obj, p.off + o), sizeof(fty, S))); o += sizeof(fty, S)
                env[dst] = tuple(vals)
            else:
                env[dst] = self.load(p, sizeof(ty, S), ty)
        elif op == 'getelementptr':
            parts = split_top(re.sub(r'^getelementptr (?:inbounds )?', '', rhs))
            ty, base = parts[0], self.val(parts[1].split()[-1], env)
            if not isinstance(base, Ptr): raise Unsupported('gep on %r' % (base,))
            idxs = [x.split() for x in parts[2:]]
            off = base.off + self.val(idxs[0][1], env) * sizeof(ty, S)
            for it in idxs[1:]:
                k = self.val(it[1], env)
                if ty.startswith('%struct.') or ty.startswith('{'):
                    fields = S[ty] if ty.startswith('%struct.') else split_top(ty[1:-1])
                    off = off + sum(sizeof(t, S) for t in fields[:k]); ty = fields[k]
                else:
                    mm = re.fullmatch(r'\[(\d+) x (.*)\]', ty)
                    if not mm: raise Unsupported('gep into ' + ty)
                    ty = mm.group(2); off = off + k * sizeof(ty, S)
            env[dst] = Ptr(base.obj, off)
        elif op in ('add', 'sub', 'mul'):
            m = re.match(r'(add|sub|mul)((?: nsw| nuw)*) i(\d+) (\S+), (\S+)', rhs)
            a, b = self.val(m.group(4), env), self.val(m.group(5), env)
            if isinstance(a, bool): a = int(a)
            if isinstance(b, bool): b = int(b)
            r = a + b if op == 'add' else a - b if op == 'sub' else a * b
            bits = int(m.group(3))
            if 'nsw' in m.group(2):
                self.check_range(r, bits, ins)
            elif isinstance(r, int):
                r = ((r + (1 << (bits - 1))) % (1 << bits)) - (1 << (bits - 1))
            else:
                raise Unsupported('wrapping arithmetic on a symbolic value: ' + ins)
            env[dst] = r
        elif op in ('sdiv', 'srem'):
            m = re.match(r'(sdiv|srem) (?:exact )?i(\d+) (\S+), (\S+)', rhs)
            a, b = self.val(m.group(3), env), self.val(m.group(4), env)
            if isinstance(a, Sym): a = int(a)
            if isinstance(b, Sym): b = int(b)
            if b == 0: raise UB('division by zero in ' + ins)
            q = abs(a) // abs(b) * (1 if (a >= 0) == (b >= 0) else -1)
            env[dst] = q if op == 'sdiv' else a - q * b
        elif op in ('sext', 'zext', 'trunc', 'bitcast', 'sitofp', 'uitofp', 'ptrtoint', 'fptosi', 'inttoptr'):
            m = re.match(r'\w+ (.+?) (\S+) to (.+)', rhs)
            v = self.val(m.group(2), env)
            if op == 'zext':
                if isinstance(v, bool): v = int(v)
                elif isinstance(v, int):
                    bits = int(m.group(1)[1:]); v = v % (1 << bits)
                else:
                    if self.decide(v, '<', 0): raise Unsupported('zext of a negative symbolic value')
            if op in ('sitofp', 'uitofp') and isinstance(v, int): v = Fraction(v)
            if op == 'trunc':
                bits = int(m.group(3).strip()[1:])
                if isinstance(v, int):
                    v = ((v + (1 << (bits - 1))) % (1 << bits)) - (1 << (bits - 1))
                else:
                    self.check_range(v, bits, 'trunc (value would change)')
            if op == 'fptosi':
                if isinstance(v, Sym): v = v._real()
                v = int(v)
            if op == 'ptrtoint': v = 4096 * (1 + self.live.index(v.obj)) + self._off(v) if v.obj else 0
            if op == 'inttoptr': raise Unsupported('inttoptr')
            env[dst] = v
        elif op in ('fadd', 'fsub', 'fmul', 'fdiv'):
            m = re.match(r'\w+ (?:\w+ )*double (\S+), (\S+)', rhs)
            a, b = self.val(m.group(1), env), self.val(m.group(2), env)
            if op == 'fdiv':
                env[dst] = self.fdiv(a, b)
            else:
                env[dst] = a + b if op == 'fadd' else a - b if op == 'fsub' else a * b
        elif op == 'fneg':
            env[dst] = -self.val(rhs.split()[-1], env)
        elif op in ('icmp', 'fcmp'):
            m = re.match(r'[if]cmp (\w+) (.+?) (\S+), (\S+)$', rhs)
            pred, a, b = m.group(1), self.val(m.group(3), env), self.val(m.group(4), env)
            cop = {'slt': '<', 'sle': '<=', 'sgt': '>', 'sge': '>=', 'eq': '==', 'ne': '!=',
                   'olt': '<', 'ole': '<=', 'ogt': '>', 'oge': '>=', 'oeq': '==', 'une': '!=', 'ult': '<', 'ugt': '>', 'ule': '<=', 'uge': '>='}.get(pred)
            if cop is None: raise Unsupported('predicate ' + pred)
            if isinstance(a, Ptr) or isinstance(b, Ptr):
                if not (isinstance(a, Ptr) and isinstance(b, Ptr)): raise Unsupported('pointer compared with integer')
                env[dst] = (a.obj is b.obj and a.off == b.off) == (cop == '==')
            else:
                if pred[0] == 'u' and pred != 'une':
                    for x in (a, b):
                        if isinstance(x, Sym) and self.decide(x, '<', 0): raise Unsupported('unsigned compare of a negative symbolic value')
                        if isinstance(x, int) and x < 0: raise Unsupported('unsigned compare of a negative value')
                if isinstance(a, bool): a = int(a)
                if isinstance(b, bool): b = int(b)
                env[dst] = bool(self.decide(a, cop, b))
        elif op == 'br':
            m = re.match(r'br i1 (\S+), label %([\w.]+), label %([\w.]+)', rhs)
            if m:
                return ('br', m.group(2) if self.val(m.group(1), env) else m.group(3))
            return ('br', re.match(r'br label %([\w.]+)', rhs).group(1))
        elif op == 'phi':
            for v, l in re.findall(r'\[ (\S+), %(\S+) \]', rhs):
                if l == prev: env[dst] = self.val(v, env); break
            else: raise Unsupported('phi')
        elif op == 'select':
            m = re.match(r'select i1 (\S+), \S+ (\S+), \S+ (\S+)', rhs)
            env[dst] = self.val(m.group(2), env) if self.val(m.group(1), env) else self.val(m.group(3), env)
        elif op == 'extractvalue':
            m = re.match(r'extractvalue .+ (%\S+), (\d+)', rhs)
            env[dst] = env[m.group(1)][int(m.group(2))]
        elif op == 'insertvalue':
            m = re.match(r'insertvalue (.+?) (\S+), (\S+) (\S+), (\d+)$', rhs)
            agg = m.group(2)
            base = list(env[agg]) if agg.startswith('%') else [None] * 8
            base[int(m.group(5))] = self.val(m.group(4), env)
            env[dst] = tuple(base)
        elif op in ('and', 'or', 'xor', 'shl', 'ashr', 'lshr'):
            m = re.match(r'(\w+) (?:nsw |nuw |exact )*i(\d+) (\S+), (\S+)', rhs)
            a, b = self.val(m.group(3), env), self.val(m.group(4), env)
            if isinstance(a, Sym): a = int(a)
            if isinstance(b, Sym): b = int(b)
            a, b = int(a), int(b)
            bits = int(m.group(2))
            r = {'and': a & b, 'or': a | b, 'xor': a ^ b, 'shl': a << b, 'ashr': a >> b, 'lshr': (a % (1 << bits)) >> b}[op]
            if bits == 1:
                r = bool(r & 1)
            else:
                r = ((r + (1 << (bits - 1))) % (1 << bits)) - (1 << (bits - 1))
            env[dst] = r
        elif op == 'call':
            m = re.match(r'call .*?@([\w.]+)\((.*)\)(?: #\d+)?$', rhs)
            if not m: raise Unsupported(ins)
            args = []
            for a in split_top(m.group(2)):
                if a.startswith('metadata'): args.append(None); continue
                if 'getelementptr' in a:
                    args.append(('global', re.search(r'(@[\w.]+)', a).group(1))); continue
                args.append(self.val(a.split()[-1], env))
            r = self.call(m.group(1), args)
            if dst: env[dst] = r
        elif op == 'ret':
            toks = rhs.split()
            return ('ret', None if toks[1] == 'void' else self.val(toks[-1], env))
        elif op == 'unreachable':
            raise UB('unreachable executed')
        elif op == 'switch':
            m = re.match(r'switch i\d+ (\S+), label %([\w.]+) \[(.*)\]', rhs)
            v = self.val(m.group(1), env)
            if isinstance(v, Sym): v = int(v)
            for cv, cl in re.findall(r'i\d+ (-?\d+), label %([\w.]+)', m.group(3)):
                if int(cv) == v: return ('br', cl)
            return ('br', m.group(2))
        else:
            raise Unsupported(ins)
        return None

    # ---- uninterpreted real functions: quotient by a symbolic temperature and exp
    def fdiv(self, a, b):
        if isinstance(b, (int, Fraction)):
            if b == 0: raise Unsupported('fdiv by zero (inf/nan)')
            return a / b if not isinstance(a, int) else Fraction(a) / b
        ctx = self.ctx
        pos = self.decide(b, '>', 0)
        if not pos and not self.decide(b, '<', 0): raise Unsupported('fdiv by zero (inf/nan)')
        q = ctx.fresh('q')
        if ctx.concrete is None:
            zq, za = ctx.z(q), ctx.z(a)
            if pos: ctx.assume(z3.And((zq > 0) == (za > 0), (zq < 0) == (za < 0)))
            else: ctx.assume(z3.And((zq > 0) == (za < 0), (zq < 0) == (za > 0)))
            self.defs[list(q.p)[0][0]] = ('div', to_poly(a), to_poly(b))
        else:
            q = Fraction(a) / Fraction(b)
        return q


def stub_exp(it, x):
    ctx = it.ctx
    if ctx.concrete is not None:
        # concrete replay of an interpreter path: the value chosen by the model for this call
        if isinstance(x, (int, Fraction)) and x == 0:
            return Fraction(1)
        e = ctx.fresh('e')
        it.events.append(('exp', x, e))
        return e
    if isinstance(x, (int, Fraction)) and x == 0:
        return Fraction(1)
    e = ctx.fresh('e')
    zx, ze = ctx.z(x), ctx.z(e)
    ctx.assume(z3.And(ze > 0, (ze < 1) == (zx < 0), (ze == 1) == (zx == 0)))
    it.defs[list(e.p)[0][0]] = ('exp', to_poly(x))
    it.events.append(('exp', x, e))
    return e


def base_stubs():
    def malloc(it, n):
        return it.alloc(n, 'heap')

    def calloc(it, k, n):
        if isinstance(k, Sym): k = int(k)
        if isinstance(n, Sym): n = int(n)
        q = it.alloc(k * n, 'heap'); q.obj.zeroed = True
        return q

    def realloc(it, p, n):
        if isinstance(n, Sym): n = int(n)
        q = it.alloc(n, 'heap')
        if p.obj is not None:
            if p.obj.kind != 'heap': raise UB('realloc of non-heap pointer')
            if p.obj.freed: raise UB('realloc of freed block')
            if it._off(p) != 0: raise UB('realloc of interior pointer')
            for off, cell in p.obj.cells.items():
                if off + cell[0] <= n: q.obj.cells[off] = cell
            p.obj.freed = True
        return q

    def free(it, p):
        it.checks['frees'] += 1
        if p.obj is None: return
        if p.obj.kind != 'heap': raise UB('free of non-heap object %s' % p.obj.name)
        if p.obj.freed: raise UB('double free of %s' % p.obj.name)
        if it._off(p) != 0: raise UB('free of interior pointer')
        p.obj.freed = True

    def memcpy(it, dst, src, n, *flags):
        # cell-granular copy with the checks of the memory model; bytes never written stay uninitialised in the destination
        if isinstance(n, Sym): n = int(n)
        if n < 0: raise UB('memcpy of negative size')
        if n == 0: return None
        doff, soff = it._chk(dst, n, 'memcpy store'), it._chk(src, n, 'memcpy load')
        if dst.obj is src.obj and doff < soff + n and soff < doff + n: raise UB('memcpy with overlapping ranges')
        if src.obj.zeroed: raise Unsupported('memcpy from a calloc block')
        whole, partial = [], False
        for off, (w, v) in src.obj.cells.items():
            if off >= soff and off + w <= soff + n: whole.append((off - soff + doff, w, v))
            elif off < soff + n and off + w > soff: partial = True
        for off, (w, _) in list(dst.obj.cells.items()):
            if off < doff + n and off + w > doff:
                if off >= doff and off + w <= doff + n and not partial: del dst.obj.cells[off]
                else: raise Unsupported('memcpy partially overwrites an initialised cell')
        if dst.obj.zeroed: raise Unsupported('memcpy into a calloc block')
        for off, w, v in whole:
            it.store(Ptr(dst.obj, off), w, v)
        return None

    def memset(it, dst, val, n, *flags):
        if isinstance(n, Sym): n = int(n)
        if isinstance(val, Sym): val = int(val)
        if n == 0: return None
        off = it._chk(dst, n, 'memset')
        if val != 0 or off != 0 or n != dst.obj.size: raise Unsupported('memset other than zeroing a whole block')
        dst.obj.cells.clear(); dst.obj.zeroed = True
        return None

    def rand_init(it, seed):
        it.events.append(('rand_init', seed))
        return (0, 0)

    def rand_double(it, rng):
        ctx = it.ctx
        u = ctx.fresh('u')
        if ctx.concrete is None:
            ctx.assume(z3.And(ctx.z(u) >= 0, ctx.z(u) < 1))
        it.events.append(('rand_double', u)); return u

    def rand_int(it, rng, stop):
        ctx = it.ctx
        k = ctx.fresh('ri', is_int=True)
        if ctx.concrete is None:
            ctx.assume(z3.And(ctx.z(k) >= 0, ctx.z(k) < ctx.z(stop)))
        v = int(k); it.events.append(('rand_int', v, stop)); return v

    return {'malloc': malloc, 'calloc': calloc, 'realloc': realloc, 'free': free, 'rand_init': rand_init, 'rand_double': rand_double,
            'rand_int': rand_int, 'exp': stub_exp, 'llvm.fmuladd.f64': lambda it, a, b, c: a * b + c,
            'llvm.dbg.declare': lambda it, *a: None,
            'llvm.memcpy.p0i8.p0i8.i64': memcpy, 'memcpy': memcpy, 'llvm.memset.p0i8.i64': memset, 'memset': memset}


def mkarr(it, vals, width, name, kind='heap', watched=False):
    p = it.alloc(len(vals) * width, kind, name)
    for i, v in enumerate(vals): p.obj.cells[i * width] = (width, v)
    p.obj.watched = watched
    return p


# ---------------------------------------------------------------- CPython API stubs for _canneal.c
class PyRef:
    def __init__(self, kind, v): self.kind, self.v = kind, v
    def __repr__(self): return 'Py%s(%r)' % (self.kind, self.v)


def capi_stubs():
    def parse_tuple(it, args, fmt, *ptrs):
        f = it.globs[fmt[1]].rstrip(b'\0').decode()
        if len(f) != len(ptrs) or len(f) != len(args.v):
            raise UB('PyArg_ParseTuple: format %r does not match %d arguments' % (f, len(args.v)))
        for ch, p, a in zip(f, ptrs, args.v):
            if ch == 'O': it.store(p, 8, a)
            elif ch == 'i':
                if a.kind != 'int': raise UB('PyArg_ParseTuple: int expected')
                it.check_range(a.v, 32, 'PyArg_ParseTuple "i"'); it.store(p, 4, a.v)
            else: raise Unsupported('format char ' + ch)
        return 1

    def list_size(it, o):
        if not isinstance(o, PyRef) or o.kind != 'list': raise UB('PyList_Size on a non-list')
        return len(o.v)

    def list_getitem(it, o, i):
        if isinstance(i, Sym): i = int(i)
        if not isinstance(o, PyRef) or o.kind != 'list': raise UB('PyList_GetItem on a non-list')
        if not 0 <= i < len(o.v): raise UB('PyList_GetItem index %d out of range (returns NULL, then dereferenced)' % i)
        return o.v[i]

    def list_new(it, n):
        if isinstance(n, Sym): n = int(n)
        if n < 0: raise UB('PyList_New with negative size')
        return PyRef('list', [None] * n)

    def list_setitem(it, o, i, x):
        if isinstance(i, Sym): i = int(i)
        if not 0 <= i < len(o.v): raise UB('PyList_SetItem index out of range')
        o.v[i] = x; return 0

    def as_double(it, o):
        if not isinstance(o, PyRef) or o.kind not in ('float', 'int'): raise UB('PyFloat_AsDouble on %r' % (o,))
        return o.v if isinstance(o.v, (Sym, Fraction)) else Fraction(o.v)

    def as_long(it, o):
        if not isinstance(o, PyRef) or o.kind != 'int': raise UB('PyLong_AsLong on %r' % (o,))
        return o.v

    return {'PyArg_ParseTuple': parse_tuple, 'PyList_Size': list_size, 'PyList_GetItem': list_getitem,
            'PyList_New': list_new, 'PyList_SetItem': list_setitem, 'PyFloat_AsDouble': as_double,
            'PyLong_AsLong': as_long, 'PyLong_FromLong': lambda it, v: PyRef('int', v), 'PyFloat_FromDouble': lambda it, v: PyRef('float', v),
            'Py_BuildValue': lambda it, fmt, *a: PyRef('tuple', list(a)), '_Py_BuildValue_SizeT': lambda it, fmt, *a: PyRef('tuple', list(a))}


def topy(x):
    if isinstance(x, (list, tuple)): return PyRef('list', [topy(y) for y in x])
    if isinstance(x, bool): return PyRef('int', int(x))
    if isinstance(x, int): return PyRef('int', x)
    if isinstance(x, Sym): return PyRef('float', x)
    try:
        import numpy as np
        if isinstance(x, np.integer): return PyRef('int', int(x))
        if isinstance(x, np.floating): return PyRef('float', Fraction(float(x)))
    except ImportError:
        pass
    if isinstance(x, float): return PyRef('float', Fraction(x))
    if isinstance(x, Fraction): return PyRef('float', x)
    raise UB('argument of unsupported Python type %s passed to the extension' % type(x).__name__)


def frompy(o):
    if o is None: raise UB('NULL / unset item in a returned list')
    if o.kind in ('list', 'tuple'): return [frompy(y) for y in o.v]
    return o.v


class Bridge:
    """replacement for qubovert.sim._anneal.c_anneal_quso / c_anneal_puso: runs the IR of the real wrapper and kernels.

    The Python front end calls float() on couplings, so it is run on *tagged* concrete couplings; each marshalled
    cell is decoded here (balanced base 100, units of 1/8) back into the rational combination of symbolic couplings
    it stands for."""
    UNIT = 8

    def __init__(self, ctx, tagmap, texts, watch_params=()):
        self.ctx, self.tagmap, self.texts, self.watch = ctx, tagmap, texts, watch_params
        self.stats = {'steps': 0, 'calls': 0}
        self.called = set()
        self.checks = dict(loads=0, stores=0, range_checks=0, frees=0)
        self.last = None
        self.calls = []          # (fname, lifted args, (states, values), events) per call, for the native differential replay

    def lift(self, v):
        if isinstance(v, Sym): return v
        f = Fraction(v)
        if f.denominator != 1: raise UB('marshalled cell %r does not decode to a tagged coupling' % (v,))
        n = int(f); out = 0; k = 0
        while n:
            d = n % 100
            if d > 50: d -= 100
            n = (n - d) // 100
            if d:
                if k not in self.tagmap: raise UB('marshalled cell %r carries unknown tag %d' % (v, k))
                out = out + Fraction(d, self.UNIT) * self.tagmap[k]
            k += 1
        return out

    def call(self, fname, *args):
        stubs = base_stubs(); stubs.update(capi_stubs())
        it = Interp(self.texts, self.ctx, stubs, watch_params=self.watch)
        self.last = it
        liftpos = (0, 3) if fname == 'c_anneal_quso' else (3,)
        args = [[self.lift(x) for x in a] if i in liftpos else a for i, a in enumerate(args)]
        try:
            r = it.call(fname, [NULL, PyRef('tuple', [topy(a) for a in args])])
        finally:
            self.stats['steps'] += it.steps; self.stats['calls'] += 1
            self.called |= it.called
            for k in self.checks: self.checks[k] += it.checks[k]
        leaks = [o for o in it.live if o.kind == 'heap' and not o.freed]
        if leaks: raise UB('memory leak: %d heap blocks not freed (%s)' % (len(leaks), ', '.join(o.name for o in leaks[:3])))
        st, vals = frompy(r)
        self.calls.append((fname, args, (st, vals), list(it.events), dict(it.defs)))
        return st, vals
