"""Job runner shared by all property harnesses.

A *harness factory* is a function ``make(ctx, **args) -> (run, check)``:

* ``make`` declares the solver variables / base assumptions on ``ctx`` (a
  ``symx.Ctx`` in symbolic or concrete mode) -- these are the inputs of the
  real code and the stated preconditions;
* ``run()`` calls the real qubovert code on those inputs (explored path by path);
* ``check(result)`` returns a list of ``Ob`` -- proof obligations that must be
  valid under the path condition (free solver variables such as assignment
  Booleans are universally quantified).

The same factory is used for (a) symbolic exploration, (b) witness replay of
explored paths on plain numbers, (c) replay of counterexamples on plain numbers.
"""
import hashlib
import importlib
import json
import os
import random
import signal
import sys
import time
import traceback
from fractions import Fraction

import z3

from . import symx
from .symx import Ctx, Sym, PathAbort, Unknown, concretize, to_poly

REPO = os.environ.get('QUBOVERT_REPO', '/repo')
if REPO not in sys.path:
    sys.path.insert(0, REPO)


class Ob:
    """proof obligation: `formula` must hold on this path for all values of its free variables"""
    __slots__ = ('label', 'formula', 'info', 'expect_sat', 'sig')

    def __init__(self, label, formula, info=None, expect_sat=False, sig=None):
        self.label, self.formula, self.info, self.expect_sat = label, formula, info, expect_sat
        self.sig = sig or label


class HarnessError(Exception):
    pass


def fr(x):
    return str(Fraction(x))


def jsonable(o, depth=0):
    if isinstance(o, Sym): return 'Sym' + repr(dict(o.p))
    if isinstance(o, Fraction): return str(o)
    if isinstance(o, (str, int, float, bool)) or o is None: return o
    if isinstance(o, dict): return {str(k): jsonable(v, depth + 1) for k, v in o.items()}
    if isinstance(o, (list, tuple, set, frozenset)): return [jsonable(v, depth + 1) for v in o]
    return repr(o)


# ---------------------------------------------------------------- coverage of the code under test
class FuncMonitor:
    """records which functions and lines of /repo/qubovert were executed (sys.monitoring PY_START + LINE events,
    each location disabled after its first hit, so the overhead is negligible)"""
    TOOL = 4

    def __init__(self):
        self.seen = set()
        self.codes = {}
        self.lines = set()
        self.on = False

    def start(self):
        mon = sys.monitoring
        try:
            mon.use_tool_id(self.TOOL, 'vq')
        except ValueError:
            return
        root = os.path.join(REPO, 'qubovert')

        def cb(code, off):
            if code.co_filename.startswith(root):
                rel = os.path.relpath(code.co_filename, REPO)
                self.seen.add('%s:%s' % (rel, code.co_qualname))
                self.codes[(rel, code.co_qualname, code.co_firstlineno)] = code
            return mon.DISABLE

        def cbl(code, line):
            if code.co_filename.startswith(root):
                self.lines.add((os.path.relpath(code.co_filename, REPO), line))
            return mon.DISABLE
        mon.register_callback(self.TOOL, mon.events.PY_START, cb)
        mon.register_callback(self.TOOL, mon.events.LINE, cbl)
        mon.set_events(self.TOOL, mon.events.PY_START | mon.events.LINE)
        self.on = True

    def stop(self):
        if self.on:
            sys.monitoring.set_events(self.TOOL, 0)
            sys.monitoring.free_tool_id(self.TOOL)
            self.on = False

    def line_report(self):
        """per function entered: (file, qualname) -> (all source lines with code, lines executed)"""
        out = {}
        for (rel, qn, first), code in self.codes.items():
            allv = sorted({l for _, _, l in code.co_lines() if l is not None and l != first})
            out['%s:%s' % (rel, qn)] = (allv, sorted(l for l in allv if (rel, l) in self.lines))
        return out


# ---------------------------------------------------------------- running one job
def load_make(spec):
    mod = importlib.import_module(spec['module'])
    return getattr(mod, spec['make'])


def guarded(run):
    """run the code under test; an unexpected exception becomes a result, not a crash"""
    try:
        return ('ok', run())
    except (PathAbort, symx.Budget, KeyboardInterrupt, SystemExit, GeneratorExit):
        raise
    except BaseException as e:          # noqa
        if type(e).__name__ in ('Timeout', 'Unsupported', 'StepCap', 'HarnessError'):
            raise      # cannot encode / harness limits: never a verdict
        tb = traceback.extract_tb(e.__traceback__)
        where = ''
        for f in reversed(tb):
            if f.filename.startswith(REPO):
                where = '%s:%d' % (os.path.relpath(f.filename, REPO), f.lineno); break
        return ('exc', type(e).__name__, str(e)[:300], where, ''.join(traceback.format_exception(e))[-1500:])


def obligations(check, out):
    if out[0] == 'exc':
        return [Ob('no unexpected exception', False, info={'exception': out[1], 'message': out[2], 'where': out[3], 'tb': out[4]},
                   sig='unexpected %s at %s' % (out[1], out[3].split(':')[0]))]
    obs = check(out[1])
    return [o for o in obs if o is not None]


def as_formula(f):
    if isinstance(f, bool): return z3.BoolVal(f)
    if isinstance(f, symx.SymBool): raise HarnessError('SymBool used as obligation; build a z3 formula')
    return f


class Timeout(BaseException):
    pass


def decide_by_int_enumeration(ctx, pc, negf, limit=4000, timeout_ms=20000):
    """fallback for a final query the solver answered `unknown` (typically products of bounded integer coefficients):
    let the solver enumerate the assignments of the *bounded integer* variables that satisfy base + path condition and decide
    the (then much simpler) query for each.  Sound and complete inside the bounds.  -> ('unsat'|'sat'|'unknown', model-or-None)"""
    ints = [(n, z3.Int(n)) for i, n in enumerate(ctx.names) if i in ctx.bounded]
    if not ints:
        return 'unknown', None
    s2 = z3.Solver(); s2.set('timeout', timeout_ms)
    s2.add(*ctx.base); s2.add(*pc)
    n = 0
    while n < limit:
        r = s2.check()
        if r == z3.unsat:
            return 'unsat', None
        if r != z3.sat:
            return 'unknown', None
        m = s2.model()
        vals = [(v, m.eval(v, model_completion=True)) for _, v in ints]
        s3 = z3.Solver(); s3.set('timeout', timeout_ms)
        s3.add(*ctx.base); s3.add(*pc); s3.add(negf); s3.add(*[v == c for v, c in vals])
        r3 = s3.check()
        if r3 == z3.sat:
            return 'sat', s3
        if r3 != z3.unsat:
            return 'unknown', None
        s2.add(z3.Or([v != c for v, c in vals]))
        n += 1
    return 'unknown', None


def cvc5_verdict(smt2_text, timeout_ms=20000):
    """second opinion on a final query: cvc5 (python wheel) on the SMT-LIB2 text exported by z3 -> 'sat' | 'unsat' | 'unknown'"""
    import cvc5
    tm = cvc5.TermManager() if hasattr(cvc5, 'TermManager') else None
    slv = cvc5.Solver(tm) if tm else cvc5.Solver()
    slv.setOption('tlimit-per', str(timeout_ms))
    slv.setLogic('ALL')
    p = cvc5.InputParser(slv)
    p.setStringInput(cvc5.InputLanguage.SMT_LIB_2_6, smt2_text, 'q')
    sm = p.getSymbolManager()
    out = 'unknown'
    while True:
        cmd = p.nextCommand()
        if cmd.isNull(): break
        r = str(cmd.invoke(slv, sm) or '').strip()
        if r in ('sat', 'unsat', 'unknown'): out = r
    return out


def concrete_run(spec, values):
    """run the harness on plain numbers; returns (labels->(formula, ob), ctx)"""
    make = load_make(spec)
    ctx = Ctx(concrete={k: Fraction(v) for k, v in values.items()})
    Ctx.cur = None
    run, check = make(ctx, **spec['args'])
    out = None
    for out, _, _ in ctx.explore(lambda c: guarded(run)):
        pass
    obs = obligations(check, out)
    return obs, ctx, out


def holds_concretely(ob):
    """is the obligation valid (for all values of remaining free variables)?  -> 'valid' | 'violated' | 'unknown'"""
    f = as_formula(ob.formula)
    s = z3.Solver(); s.set('timeout', 30000)
    s.add(z3.Not(f))
    r = s.check()
    return {'unsat': 'valid', 'sat': 'violated'}.get(str(r), 'unknown')


def run_job(spec):
    """explore one harness instance symbolically; returns a JSON-able result dict"""
    t0 = time.time()
    budget = spec.get('budget_s', 600)
    if spec.get('deadline'):
        budget = max(1.0, min(budget, spec['deadline'] - t0))
    res = dict(name=spec['name'], prop=spec['prop'], sig=spec.get('sig', spec['name']), args=jsonable(spec['args']),
               paths=0, decisions=0, forks=0, queries=0, obligations=0, discharged=0, sat=0, unknown=0, twins=0, twins_sat=0,
               solver_s=0.0, final_s=0.0, witness_ok=0, witness_bad=[], cex=[], samples=[], complete=True, error=None,
               functions=[], aborted=0, inconclusive_paths=0, fallbacks=0, labels=set())
    mon = FuncMonitor(); mon.start()

    def on_alarm(signum, frame):
        raise Timeout()
    signal.signal(signal.SIGALRM, on_alarm)
    signal.alarm(int(budget * 1.5) + 60)
    try:
        make = load_make(spec)
        ctx = Ctx(timeout_ms=spec.get('timeout_ms', 20000))
        run, check = make(ctx, **spec['args'])
        rng = random.Random(spec.get('seed', 0))
        wit_all = spec.get('witness_all', 30)
        wit_rate = spec.get('witness_rate', 0.05)
        max_cex = spec.get('max_cex', 6)
        cross_rate = spec.get('cross_rate', 0)
        seen_sigs = set()
        for out, pc, trace in ctx.explore(lambda c: guarded(run), deadline=t0 + budget, max_paths=spec.get('max_paths', 10 ** 7)):
            res['paths'] += 1
            try:
                obs = obligations(check, out)
            except Unknown:
                res['unknown'] += 1; res['complete'] = False; continue
            t1 = time.time()
            s = z3.Solver(); s.set('timeout', spec.get('final_timeout_ms', 30000))
            s.add(*ctx.base); s.add(*pc)
            path_ok = True
            for ob in obs:
                f = as_formula(ob.formula)
                res['labels'].add(ob.sig)
                if ob.label.startswith('ENGINE:'):
                    # engine validation against the implementation (e.g. native differential replay of this path)
                    if ob.formula is True: res['witness_ok'] += 1
                    elif ob.formula is None: res['witness_skipped'] = res.get('witness_skipped', 0) + 1
                    else: res['witness_bad'].append(dict(why=ob.label, detail=jsonable(ob.info)))
                    continue
                if ob.label.startswith('OUTSIDE-BOUND'):
                    res['outside_bound'] = res.get('outside_bound', 0) + 1
                    continue
                if ob.expect_sat:
                    res['twins'] += 1
                    s.push(); s.add(f); r = s.check(); s.pop()
                    if r == z3.sat: res['twins_sat'] += 1
                    continue
                res['obligations'] += 1
                if z3.is_true(f):
                    res['discharged'] += 1; r = z3.unsat
                else:
                    s.push(); s.add(z3.Not(f)); r = s.check()
                    sat_solver = s
                    if r == z3.unknown:
                        v_, s3_ = decide_by_int_enumeration(ctx, pc, z3.Not(f))
                        res['unknown_resolved_by_enumeration'] = res.get('unknown_resolved_by_enumeration', 0) + (v_ != 'unknown')
                        if v_ == 'unsat': r = z3.unsat
                        elif v_ == 'sat': r = z3.sat; sat_solver = s3_
                    if cross_rate and str(r) in ('sat', 'unsat') and rng.random() < cross_rate:
                        try:
                            v2 = cvc5_verdict(s.to_smt2())
                        except Exception as e:      # noqa
                            v2 = 'error: %s' % e
                        res['cross_checked'] = res.get('cross_checked', 0) + 1
                        if v2 in ('sat', 'unsat') and v2 != str(r):
                            res.setdefault('cross_disagree', []).append(dict(label=ob.label, z3=str(r), cvc5=v2))
                        elif v2 not in ('sat', 'unsat'):
                            res['cross_inconclusive'] = res.get('cross_inconclusive', 0) + 1
                    if r == z3.unsat:
                        res['discharged'] += 1
                    elif r == z3.sat:
                        res['sat'] += 1; path_ok = False
                        if ob.sig not in seen_sigs and len(res['cex']) < max_cex:
                            vals = ctx.dyadic_values(sat_solver)
                            if vals is None:
                                res['unknown'] += 1
                            else:
                                seen_sigs.add(ob.sig)
                                res['cex'].append(dict(prop=spec['prop'], spec=_spec_json(spec), label=ob.label, sig=ob.sig,
                                                       values={k: str(v) for k, v in vals.items()}, info=jsonable(ob.info),
                                                       pc=[str(c)[:200] for c in pc][:40]))
                    else:
                        res['unknown'] += 1
                        res.setdefault('unknown_labels', []).append(ob.label)
                    s.pop()
                if len(res['samples']) < 3 and not z3.is_true(f) and not z3.is_false(f):
                    res['samples'].append(dict(job=spec['name'], obligation=ob.label, path_condition=[str(c)[:160] for c in pc][:12],
                                               negated_query=str(z3.Not(f))[:400], verdict=str(r)))
            res['final_s'] += time.time() - t1
            # witness replay of this path on plain numbers (engine validation)
            if path_ok and (res['paths'] <= wit_all or rng.random() < wit_rate):
                w = ctx.witness(pc)
                if w is not None:
                    try:
                        cobs, cctx, cout = concrete_run(spec, w)
                        if cctx.base_violated:
                            res['witness_bad'].append(dict(why='witness violates assumptions', detail=cctx.base_violated[:3]))
                        else:
                            sl = sorted(o.label for o in obs if not o.expect_sat); cl = sorted(o.label for o in cobs if not o.expect_sat)
                            if sl != cl:
                                res['witness_bad'].append(dict(why='obligation labels differ between symbolic path and concrete run',
                                                               values={k: str(v) for k, v in w.items()},
                                                               only_symbolic=[x for x in sl if x not in cl][:5], only_concrete=[x for x in cl if x not in sl][:5]))
                            else:
                                bad = [o.label for o in cobs if not o.expect_sat and holds_concretely(o) != 'valid']
                                if bad:
                                    res['witness_bad'].append(dict(why='obligation proved symbolically fails on the concrete run',
                                                                   labels=bad[:5], values={k: str(v) for k, v in w.items()}))
                                else:
                                    res['witness_ok'] += 1
                    except Exception as e:     # noqa
                        res['witness_bad'].append(dict(why='concrete run raised %s: %s' % (type(e).__name__, str(e)[:200]),
                                                       tb=traceback.format_exc()[-800:]))
        st = ctx.stats
        res.update(decisions=st['decisions'] + st.get('sub_decisions', 0) + st['realisations'] + st.get('sub_realisations', 0), forks=st['forks'] + st.get('sub_forks', 0),
                   queries=st['queries'] + st.get('sub_queries', 0), solver_s=round(st['solver_s'] + st.get('sub_solver_s', 0.0), 3),
                   aborted=st['aborted'], inconclusive_paths=st['inconclusive_paths'] + st.get('sub_inconclusive_paths', 0),
                   fallbacks=st['fallbacks'] + st.get('sub_fallbacks', 0), realisations=st['realisations'])
        res['complete'] = res['complete'] and ctx.complete
    except Timeout:
        res['complete'] = False; res['error'] = None; res['timed_out'] = True
    except BaseException as e:       # noqa
        res['error'] = '%s: %s\n%s' % (type(e).__name__, e, traceback.format_exc()[-2000:])
        res['complete'] = False
    finally:
        signal.alarm(0)
        mon.stop()
    res['functions'] = sorted(mon.seen | set(getattr(ctx, 'extra_functions', ())) if 'ctx' in dir() else mon.seen)
    res['line_report'] = mon.line_report()
    res['labels'] = sorted(res['labels'])[:50]
    res['wall_s'] = round(time.time() - t0, 2)
    res['final_s'] = round(res['final_s'], 3)
    return res


def _spec_json(spec):
    return dict(prop=spec['prop'], name=spec['name'], sig=spec.get('sig', spec['name']), module=spec['module'], make=spec['make'],
                args=spec['args'])


def replay_cex(cex):
    """re-run a counterexample on plain numbers against the current /repo.
    returns (reproduced: bool, detail: str)"""
    spec = cex['spec']
    try:
        obs, cctx, out = concrete_run(spec, cex['values'])
    except Exception as e:      # noqa
        return False, 'concrete run of the harness raised %s: %s' % (type(e).__name__, e)
    if cctx.base_violated:
        return False, 'counterexample values violate the harness assumptions: %s' % cctx.base_violated[:3]
    same = [ob for ob in obs if ob.label == cex['label'] and not ob.expect_sat]
    verdicts = [(ob, holds_concretely(ob)) for ob in same]
    for ob, v in verdicts:
        if v == 'violated':
            return True, 'obligation %r fails on the concrete run (info: %s)' % (ob.label, json.dumps(jsonable(ob.info))[:600])
    if verdicts:
        return False, 'obligation %r is %s on the concrete run' % (cex['label'], verdicts[0][1])
    # same signature under a different label (e.g. a different exception site) still counts
    for ob in obs:
        if ob.sig == cex['sig'] and not ob.expect_sat and holds_concretely(ob) == 'violated':
            return True, 'obligation %r (same signature) fails on the concrete run (info: %s)' % (ob.label, json.dumps(jsonable(ob.info))[:600])
    return False, 'obligation %r not produced by the concrete run (labels: %s)' % (cex['label'], [o.label for o in obs][:8])
