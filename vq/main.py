"""Driver: `python -m vq.main <ID> [--tier quick|thorough] [--replay FILE]`.

exit 0  property held on everything explored (known findings are printed as KNOWN-FINDING lines)
exit 1  a reproduced counterexample that is not a listed known finding (VIOLATION line printed)
exit 2  harness / engine error (non-reproducing counterexample, witness-replay disagreement,
        vacuity guard failure, crashed job) -- never a verdict
"""
import argparse
import fnmatch
import hashlib
import importlib
import json
import multiprocessing
import os
import sys
import time

HERE = os.path.dirname(os.path.dirname(os.path.abspath(__file__)))


def load_known():
    p = os.environ.get('VQ_KNOWN_FINDINGS') or os.path.join(HERE, 'known_findings.json')
    if not os.path.exists(p):
        return []
    return json.load(open(p)).get('findings', [])


def match_known(known, prop, fullsig):
    for k in known:
        if k['property'] == prop and fnmatch.fnmatchcase(fullsig, k['match']):
            return k
    return None


def main(argv=None):
    ap = argparse.ArgumentParser()
    ap.add_argument('prop')
    ap.add_argument('--tier', default=os.environ.get('VERIF_TIER', 'quick'))
    ap.add_argument('--replay')
    ap.add_argument('--jobs', type=int, default=int(os.environ.get('VERIF_JOBS', '0')) or (os.cpu_count() or 4))
    ap.add_argument('--only', help='substring filter on job names (debugging; evidence is marked partial)')
    ap.add_argument('--no-evidence', action='store_true')
    ap.add_argument('--max-wall', type=float, default=float(os.environ.get('VERIF_MAX_WALL', '0') or 0),
                    help='overall wall-clock budget in seconds (default: 900 quick, 1500 thorough); jobs that cannot finish are reported INCOMPLETE')
    a = ap.parse_args(argv)
    # scratch directory of this run (native builds of the worker processes); removed when the driver exits
    import atexit, shutil, tempfile
    runtmp = tempfile.mkdtemp(prefix='vq_run_')
    os.environ['VQ_TMP'] = runtmp
    atexit.register(shutil.rmtree, runtmp, True)
    prop = a.prop.upper()
    tier = a.tier if a.tier in ('quick', 'thorough') else 'quick'
    seed = int(os.environ.get('VERIF_SEED', '0') or 0)
    from . import core
    mod = importlib.import_module('vq.props.%s' % prop.lower())

    if a.replay:
        cex = json.load(open(a.replay))
        if hasattr(mod, 'replay'):
            ok, detail = mod.replay(cex)
        else:
            ok, detail = core.replay_cex(cex)
        print('replay of %s: %s -- %s' % (a.replay, 'REPRODUCED' if ok else 'not reproduced', detail))
        if ok:
            print('VIOLATION property=%s replay=%s' % (prop, a.replay))
            return 1
        return 0

    t0 = time.time()
    specs = mod.jobs(tier, seed)
    if a.only:
        specs = [s for s in specs if a.only in s['name']]
    max_wall = a.max_wall or (900 if tier == 'quick' else 1500)
    for s in specs:
        s.setdefault('prop', prop); s.setdefault('seed', seed)
        s['deadline'] = t0 + max_wall
        # second solver on a seeded sample of the final queries (thorough: 1 in 200, quick: 1 in 2000)
        s.setdefault('cross_rate', 0.005 if tier == 'thorough' else 0.0005)
    specs.sort(key=lambda s: -s.get('cost', s.get('budget_s', 60)))
    results = []
    if hasattr(mod, 'prepare'):
        mod.prepare(tier)
    if a.jobs <= 1 or len(specs) <= 1:
        for s in specs:
            results.append(core.run_job(s))
    else:
        ctxmp = multiprocessing.get_context('fork')
        with ctxmp.Pool(min(a.jobs, len(specs)), maxtasksperchild=1) as pool:
            for r in pool.imap_unordered(core.run_job, specs, chunksize=1):
                results.append(r)
                if os.environ.get('VQ_VERBOSE'):
                    print('  job %-60s paths %6d obl %7d sat %d unk %d %s %.1fs' % (r['name'][:60], r['paths'], r['obligations'], r['sat'],
                                                                                      r['unknown'], 'complete' if r['complete'] else 'INCOMPLETE', r['wall_s']),
                          flush=True)
    results.sort(key=lambda r: r['name'])
    extra = mod.post(results, tier, seed) if hasattr(mod, 'post') else {}

    # ---- engine-level failures
    errors = [r for r in results if r['error']]
    wbad = [(r['name'], w) for r in results for w in r['witness_bad']]
    vac = [r['name'] for r in results if r['twins'] and not r['twins_sat'] and r['complete']]
    vac += list(extra.get('vacuity_failures', []))

    # ---- counterexamples: replay on plain numbers, classify
    known = load_known()
    cexs = [c for r in results for c in r['cex']] + list(extra.get('cex', []))
    bysig = {}
    for c in cexs:
        bysig.setdefault(c['spec']['sig'] + '|' + c['sig'], c)
    violations, knowns, nonrepro = [], [], []
    os.makedirs(os.path.join(HERE, 'replays'), exist_ok=True)
    skipped_replays = 0
    for fullsig, c in sorted(bysig.items()):
        if len(violations) + len(nonrepro) >= 60:
            skipped_replays += 1; continue
        if c.get('replayed') is not None:
            ok, detail = c['replayed'], c.get('replay_detail', '')
        elif hasattr(mod, 'replay'):
            ok, detail = mod.replay(c)
        else:
            ok, detail = core.replay_cex(c)
        if not ok:
            nonrepro.append((fullsig, detail)); continue
        k = match_known(known, prop, fullsig)
        if k:
            knowns.append((k, fullsig)); continue
        h = hashlib.sha1(fullsig.encode()).hexdigest()[:10]
        path = os.path.join(HERE, 'replays', '%s-%s.json' % (prop, h))
        c2 = dict(c); c2['fullsig'] = fullsig; c2['replay_detail'] = detail
        json.dump(c2, open(path, 'w'), indent=1, default=str)
        violations.append((fullsig, path, detail))

    seen_k = set()
    for k, fullsig in knowns:
        if k['match'] not in seen_k:
            seen_k.add(k['match'])
            print('KNOWN-FINDING: property=%s %s' % (prop, k['what']))
    for fullsig, path, detail in violations[:12]:
        print('VIOLATION property=%s replay=%s' % (prop, path))
        print('   signature: %s' % fullsig)
        print('   %s' % detail[:700])
    if len(violations) > 12 or skipped_replays:
        print('   ... and %d more distinct signatures (%d further counterexamples not replayed)' % (max(0, len(violations) - 12), skipped_replays))

    # ---- evidence
    S = lambda k: sum(r.get(k, 0) or 0 for r in results)
    incomplete = [r['name'] for r in results if not r['complete']]
    funcs = sorted({f for r in results for f in r['functions']} | set(extra.get('functions', [])))
    samples = [s for r in results for s in r['samples']][:6] + list(extra.get('samples', []))[:4]
    if not samples:
        samples = [dict(job=r['name'], args=r['args'], paths=r['paths'], obligations=r['obligations']) for r in results[:3]]
    import z3
    cov = dict(
        states=S('paths') + extra.get('states', 0), transitions=S('decisions') + extra.get('transitions', 0),
        transitions_rule='decisions on symbolic truth values plus realisations of symbolic integers taken along the explored paths',
        traces_validated_against_impl=S('witness_ok') + extra.get('traces_validated', 0),
        samples=samples,
        obligations=S('obligations') + extra.get('obligations', 0), discharged=S('discharged') + extra.get('discharged', 0),
        sat=S('sat') + extra.get('sat', 0), unknown=S('unknown') + extra.get('unknown', 0),
        exhaustive=(not incomplete) and not a.only and not extra.get('incomplete') and not (S('unknown') + extra.get('unknown', 0)),
        exhaustive_scope='every feasible path of every listed job inside the stated bounds' if not incomplete else 'NOT exhaustive: see incomplete_jobs',
        jobs=len(results), incomplete_jobs=incomplete[:40], feasibility_queries=S('queries'), forks=S('forks'),
        solver_seconds=round(S('solver_s') + S('final_s') + extra.get('solver_seconds', 0), 2), solver='z3 ' + z3.get_version_string(),
        reachability_twins=dict(declared=S('twins'), satisfiable=S('twins_sat')),
        unknown_fallback_realisations=S('fallbacks'), inconclusive_paths=S('inconclusive_paths'), aborted_infeasible_prefixes=S('aborted'),
        functions_encoded=funcs, bounds=getattr(mod, 'BOUNDS', {}).get(tier, getattr(mod, 'BOUNDS', {})),
        outside_claim=getattr(mod, 'OUTSIDE', []), stubs=getattr(mod, 'STUBS', []),
        per_job=[dict(name=r['name'], paths=r['paths'], obligations=r['obligations'], discharged=r['discharged'], sat=r['sat'],
                      unknown=r['unknown'], complete=r['complete'], wall_s=r['wall_s']) for r in results][:400],
        known_findings_seen=[k['what'] for k, _ in knowns][:20],
        counterexamples_not_reproduced=[x[0] for x in nonrepro][:10], witness_replay_disagreements=len(wbad), job_errors=len(errors),
        second_solver=dict(solver='cvc5 (python wheel) on the SMT-LIB2 export of the z3 query', queries_rechecked=S('cross_checked'), inconclusive=S('cross_inconclusive'),
                           disagreements=sum(len(r.get('cross_disagree', [])) for r in results)),
        unknown_resolved_by_bounded_enumeration=S('unknown_resolved_by_enumeration'),
        partial_run_filter=a.only, paths_outside_harness_bound=S('outside_bound'),
        unknown_obligation_labels=sorted({l for r in results for l in r.get('unknown_labels', [])})[:20],
    )
    # line coverage of the functions entered, restricted to the files the property is anchored in
    anchors = set(getattr(mod, 'ANCHOR_FILES', []))
    if not anchors:
        try:
            import json as _j
            for l in open(os.path.join(HERE, 'properties.jsonl')):
                pr = _j.loads(l)
                if pr['id'] == prop: anchors = set(pr['anchors']['files'])
        except Exception:       # noqa
            pass
    tot, hit, missing = {}, {}, {}
    for r in results:
        for fn, (allv, exe) in (r.get('line_report') or {}).items():
            if fn.split(':')[0] not in anchors: continue
            tot.setdefault(fn, set()).update(allv); hit.setdefault(fn, set()).update(exe)
    for fn in tot:
        m = sorted(tot[fn] - hit[fn])
        if m: missing[fn] = m[:25]
    cov['anchored_code_coverage'] = dict(functions_entered=len(tot), lines=sum(len(v) for v in tot.values()), lines_executed=sum(len(v) for v in hit.values()),
                                         lines_never_executed_in_entered_functions={k: missing[k] for k in sorted(missing)[:60]})
    for k, v in extra.items():
        if k.startswith('x_'):
            cov[k[2:]] = v
    ev = dict(property_id=prop, tier=tier, seed=seed, level=getattr(mod, 'LEVEL', 'model_checking'), coverage=cov,
              assumptions=getattr(mod, 'ASSUMPTIONS', []), wall_s=round(time.time() - t0, 2), violations=len(violations))
    if getattr(mod, 'LEVEL', 'model_checking') == 'translation_validation':
        cov['programs'] = cov['states']; cov['disagreements_checked'] = cov['obligations']
    if not a.no_evidence:
        os.makedirs(os.path.join(HERE, 'evidence'), exist_ok=True)
        json.dump(ev, open(os.path.join(HERE, 'evidence', '%s.json' % prop), 'w'), indent=1, default=str)

    print('%s %s: jobs %d, paths %d, decisions %d, obligations %d (unsat %d, sat %d, unknown %d), witness replays ok %d, '
          'incomplete jobs %d, known findings %d, wall %.1fs' % (prop, tier, len(results), cov['states'], cov['transitions'], cov['obligations'],
                                                                cov['discharged'], cov['sat'], cov['unknown'], cov['traces_validated_against_impl'],
                                                                len(incomplete), len(seen_k), time.time() - t0))
    if incomplete:
        print('INCOMPLETE (budget/unknown; not counted as success for those sub-trees): %s' % ', '.join(incomplete[:8]))
    rc = 0
    if violations:
        rc = 1
    hard = []
    if errors:
        hard.append('job errors: ' + '; '.join('%s: %s' % (r['name'], r['error'].splitlines()[0]) for r in errors[:5]))
        for r in errors[:2]:
            print(r['error'], file=sys.stderr)
    if wbad:
        hard.append('witness replay disagreements: ' + json.dumps(wbad[:3], default=str)[:1500])
    if vac:
        hard.append('vacuity guard: reachability twin never satisfiable in ' + ', '.join(vac[:5]))
    if nonrepro:
        hard.append('counterexamples that do not reproduce on the real code: ' + '; '.join('%s (%s)' % x for x in nonrepro[:4])[:1500])
    dis = [d for r in results for d in r.get('cross_disagree', [])]
    if dis:
        hard.append('z3 and cvc5 disagree on final queries: ' + json.dumps(dis[:3])[:600])
    if cov['states'] == 0 and not extra.get('states_ok'):
        hard.append('no path explored')
    for h in hard:
        print('HARNESS-ERROR: ' + h)
    if hard and rc == 0:
        rc = 2
    return rc


if __name__ == '__main__':
    sys.exit(main())
