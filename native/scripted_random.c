/* Replacement for qubovert/sim/src/random.c used only by /verif's native differential replay:
   the draws are read from a script set up by the test driver, so that a path explored by the
   symbolic interpreter can be re-run on a native build of the *real* kernels and wrapper. */
#include "random.h"
#include <math.h>

#define VQ_MAX 4096
static double vq_d[VQ_MAX]; static int vq_nd = 0, vq_id = 0;
static int vq_k[VQ_MAX];    static int vq_nk = 0, vq_ik = 0;
static int vq_overrun = 0, vq_seed = 0, vq_inits = 0;

void vq_script(double *d, int nd, int *k, int nk) {
    int i;
    vq_nd = nd < VQ_MAX ? nd : VQ_MAX; vq_nk = nk < VQ_MAX ? nk : VQ_MAX;
    for(i=0; i<vq_nd; i++) vq_d[i] = d[i];
    for(i=0; i<vq_nk; i++) vq_k[i] = k[i];
    vq_id = 0; vq_ik = 0; vq_overrun = 0; vq_inits = 0;
}
int vq_used_doubles(void) { return vq_id; }
int vq_used_ints(void) { return vq_ik; }
int vq_overran(void) { return vq_overrun; }
int vq_last_seed(void) { return vq_seed; }
int vq_num_inits(void) { return vq_inits; }

void rand_seed(rng_t *rng, int seed) { vq_seed = seed; rng->state = 0; rng->inc = 1; }
rng_t rand_init(int seed) { rng_t rng; rand_seed(&rng, seed); vq_inits++; return rng; }
double rand_double(rng_t *rng) {
    if(vq_id >= vq_nd) { vq_overrun = 1; return 0.5; }
    return vq_d[vq_id++];
}
int rand_int(rng_t *rng, int stop) {
    if(vq_ik >= vq_nk) { vq_overrun = 1; return 0; }
    return vq_k[vq_ik++];
}
